/* unit kbq - kirsch_bounded_kfifo_queue (C06, ownership part of C07).  Contracts, stubs, ghost state, harnesses only;
 * every function body under contract comes from lowered.h (extracted from the repository on each run). */
#include <stdint.h>
#include <stddef.h>
static void mon_load(void* addr, uint64_t v, int o);
static void mon_cas(void* addr, uint64_t e, uint64_t d, _Bool ok, int o);
static void mon_store(void* addr, uint64_t v, int o);
#define XV_ON_LOAD(addr, val, order) mon_load((void*)(addr), (uint64_t)(val), (order))
#define XV_ON_CAS(addr, e, d, ok, order) mon_cas((void*)(addr), (uint64_t)(e), (uint64_t)(d), (ok), (order))
#define XV_ON_STORE(addr, val, order) mon_store((void*)(addr), (uint64_t)(val), (order))
#include "xv.h"
int xv_threw; uint64_t xv_clock, xv_rmw_old; _Bool xv_cas_ok;
#define XV_EXC_std__invalid_argument 1
#define XV_EXC_std__bad_alloc 2

/* ---- shapes: k in 1..KMAX, segments in 1..SMAX; one cbmc run covers every (k, S) of the box by dispatching on the two inputs ---- */
#ifndef KMAX
#define KMAX 3
#endif
#ifndef SMAX
#define SMAX 3
#endif
#define NMAX (KMAX * SMAX)

/* ---- types ---- */
typedef uint64_t marked_idx;       /* struct marked_idx { uint64_t _val; } : its one word */
typedef uint64_t marked_value;     /* marked_ptr<T,16>: contract of unit mp - 48 pointer bits, 16 mark bits on top, mark trimmed to 16 bits */
typedef uintptr_t value_type, raw_value_type;
#define PTR_BITS 48
#define PTR_MASK ((((uint64_t)1) << PTR_BITS) - 1)
static marked_value MV_make(uint64_t p, uint64_t mark) { return p | (mark << PTR_BITS); }
static uint64_t MV_get(marked_value v) { return v & PTR_MASK; }
static uint64_t MV_mark(marked_value v) { return v >> PTR_BITS; }
struct entry { marked_value value; };
struct kbq { uint64_t _queue_size; size_t _k; marked_idx _head; marked_idx _tail; struct entry _queue[NMAX]; };
#define bits XV_BITS
#define val_mask XV_VAL_MASK
#define TAG_MASK (~(uint64_t)0 >> XV_BITS)

/* ---- utils::random(): an arbitrary value on every call ---- */
static uint64_t xv_random(void) { return nondet_u64(); }

/* ---- pointer_queue_traits: ghost ownership ---- */
unsigned g_released, g_stored, g_deleted_tracked, g_deleted_other; raw_value_type g_track;
static raw_value_type TR_get_raw(value_type v) { return v; }
static void TR_release(value_type v) { g_released++; }
#define TR_store(target, raw) do { (target) = (raw); g_stored++; } while (0)
static void TR_delete_value(raw_value_type raw) { if (raw != 0) { if (raw == g_track) g_deleted_tracked++; else g_deleted_other++; } }

/* ---- constructor pieces ---- */
#define ALLOC_MAX (((uint64_t)1) << 59)      /* operator new[] of more than 2^63 bytes fails */
uint64_t g_alloc_n; unsigned g_allocs, g_queue_inits;
static uint64_t xv_new_entries(uint64_t n) { if (n > ALLOC_MAX) { xv_threw = XV_EXC_std__bad_alloc; return 0; } g_alloc_n = n; g_allocs++; return 1; }
#define XV_NEW_ENTRIES(self, n) xv_new_entries(n)
#define XV_INIT__queue_size(self, v) ((self)->_queue_size = (v))
#define XV_INIT__k(self, v) ((self)->_k = (v))
#define XV_INIT__head(self, v) ((self)->_head = XV_MI_DEFAULT)      /* marked_idx() = default; uint64_t _val = <XV_MI_DEFAULT, read from the header> */
#define XV_INIT__tail(self, v) ((self)->_tail = XV_MI_DEFAULT)
#define XV_INIT__queue(self, v) do { if (v) g_queue_inits++; } while (0)

/* ---- do_pop is instantiated with the two lambdas of try_pop ---- */
static _Bool kbq_pop_success(value_type* result_p, marked_value* v_p);
static _Bool kbq_pop_empty(void);
#define XV_SUCCESSFUNC(v) kbq_pop_success(result_p, &(v))
#define XV_EMPTYFUNC() kbq_pop_empty()

/* ---- callees of try_push / do_pop: the real text (default), the SEQ contract stub (XV_STUB == 1: implements kbq.find_index.result /
 * kbq.segment_empty.spec, which the find_index_* and segment_empty runs prove for the real text), or an INT recording stub returning an
 * arbitrary answer (XV_STUB == 2).  committed and queue_full stay real in SEQ runs. ---- */
struct kbq;
#if XV_STUB == 1
static _Bool st_find_index_E(struct kbq* self, uint64_t start, uint64_t* idx_p, marked_value* old_p);
static _Bool st_find_index_N(struct kbq* self, uint64_t start, uint64_t* idx_p, marked_value* old_p);
static _Bool st_segment_empty(struct kbq* self, uint64_t h);
#define CALL_find_index_E st_find_index_E
#define CALL_find_index_N st_find_index_N
#define CALL_segment_empty st_segment_empty
#define CALL_queue_full kbq_queue_full
#define CALL_committed kbq_committed
#elif XV_STUB == 2
static _Bool rec_find_index(struct kbq* self, uint64_t start, uint64_t* idx_p, marked_value* old_p);
static _Bool rec_queue_full(struct kbq* self, uint64_t h, uint64_t t);
static _Bool rec_segment_empty(struct kbq* self, uint64_t h);
static _Bool rec_committed(struct kbq* self, uint64_t t, uint64_t v, uint64_t idx);
#define CALL_find_index_E rec_find_index
#define CALL_find_index_N rec_find_index
#define CALL_queue_full rec_queue_full
#define CALL_segment_empty rec_segment_empty
#define CALL_committed rec_committed
#else
#define CALL_find_index_E kbq_find_index_E
#define CALL_find_index_N kbq_find_index_N
#define CALL_queue_full kbq_queue_full
#define CALL_segment_empty kbq_segment_empty
#define CALL_committed kbq_committed
#endif

/* ---- monitors ---- */
struct kbq* mon_q;
#define NPROBE 16
unsigned mon_nprobe; uint64_t mon_probe[NPROBE];
_Bool mon_adv_ok = 1, mon_plain_store;
/* slot CAS log (last), head/tail access log */
unsigned mon_slot_cas_ok_n, mon_slot_cas_n; uint64_t mon_slot_cas_idx, mon_slot_cas_e, mon_slot_cas_d, mon_slot_cas_clock; int mon_slot_cas_order; _Bool mon_slot_cas_ok;
uint64_t mon_tail_first, mon_tail_last, mon_tail_last_clock, mon_head_first, mon_head_last, mon_head_last_clock; unsigned mon_tail_loads, mon_head_loads;
unsigned mon_tail_cas_n, mon_head_cas_n; uint64_t mon_tail_cas_e, mon_tail_cas_d, mon_tail_cas_clock, mon_head_cas_e, mon_head_cas_d; _Bool mon_head_cas_ok;
static uint64_t MI_get(marked_idx), MI_mark(marked_idx); static marked_idx MI_make(uint64_t, uint64_t);
static void env_own_cas(void* addr, uint64_t e, uint64_t d, _Bool ok);
static long slot_of(void* addr) {
  if (!__CPROVER_same_object(addr, mon_q)) return -1;
  size_t off = __CPROVER_POINTER_OFFSET(addr);
  if (off < offsetof(struct kbq, _queue)) return -1;
  return (long)((off - offsetof(struct kbq, _queue)) / sizeof(struct entry));
}
static void mon_load(void* addr, uint64_t v, int o) {
  long s = slot_of(addr);
  if (s >= 0) { if (mon_nprobe < NPROBE) mon_probe[mon_nprobe] = (uint64_t)s; mon_nprobe++; }
  if (addr == (void*)&mon_q->_tail) { if (!mon_tail_loads) mon_tail_first = v; mon_tail_last = v; mon_tail_last_clock = xv_clock; mon_tail_loads++; }
  if (addr == (void*)&mon_q->_head) { if (!mon_head_loads) mon_head_first = v; mon_head_last = v; mon_head_last_clock = xv_clock; mon_head_loads++; }
}
static void mon_store(void* addr, uint64_t v, int o) { mon_plain_store = 1; }

#include "lowered.h"

/* kbq.advance.by_k: head/tail change only by CAS, to (index+k mod size, tag+1) or - head only, in committed - to (index, tag+1) */
static void mon_cas(void* addr, uint64_t e, uint64_t d, _Bool ok, int o) {
  long s = slot_of(addr);
  if (s >= 0) { mon_slot_cas_n++; if (ok) mon_slot_cas_ok_n++; mon_slot_cas_idx = (uint64_t)s; mon_slot_cas_e = e; mon_slot_cas_d = d; mon_slot_cas_ok = ok; mon_slot_cas_order = o; mon_slot_cas_clock = xv_clock; }
  if (addr == (void*)&mon_q->_head || addr == (void*)&mon_q->_tail) {
    uint64_t adv = MI_get(e) + mon_q->_k; if (adv >= mon_q->_queue_size) adv -= mon_q->_queue_size;
    _Bool moved = MI_get(d) == adv, bumped = MI_get(d) == MI_get(e) && addr == (void*)&mon_q->_head;
    if (!((moved || bumped) && MI_mark(d) == ((MI_mark(e) + 1) & TAG_MASK))) mon_adv_ok = 0;
    if (addr == (void*)&mon_q->_tail) { mon_tail_cas_n++; mon_tail_cas_e = e; mon_tail_cas_d = d; mon_tail_cas_clock = xv_clock; }
    else { mon_head_cas_n++; mon_head_cas_e = e; mon_head_cas_d = d; mon_head_cas_ok = ok; }
  }
#ifdef XV_INT
  env_own_cas(addr, e, d, ok);
#endif
}
static void mon_reset(struct kbq* q) {
  mon_q = q; mon_nprobe = 0; mon_adv_ok = 1; mon_plain_store = 0; mon_slot_cas_ok_n = 0; mon_slot_cas_n = 0; mon_tail_loads = 0; mon_head_loads = 0;
  mon_tail_cas_n = 0; mon_head_cas_n = 0; g_released = 0; g_stored = 0; g_deleted_tracked = 0; g_deleted_other = 0; xv_threw = 0; xv_clock = 0;
}

/* =====================================================================================================
 * pure obligations: index word, valid-region predicates
 * ===================================================================================================== */
uint64_t in_v, in_m, in_k, in_s, in_to, in_t, in_h;

/* kbq.idx.roundtrip + kbq.ctor.*: run the real constructor on every (k >= 1, num_segments >= 1); if it accepts (no exception, allocation
 * possible), every index v < _queue_size - that is every value the operations can store in _head/_tail - must survive marked_idx. */
void h_ctor(void) {
  struct kbq q; mon_reset(&q); g_allocs = 0; g_queue_inits = 0; g_alloc_n = nondet_u64();
  q._queue_size = nondet_u64(); q._k = nondet_size(); q._head = nondet_u64(); q._tail = nondet_u64();
  in_k = nondet_u64(); in_s = nondet_u64(); in_v = nondet_u64(); in_m = nondet_u64();
  XV_ASSUME(in_k >= 1 && in_s >= 1);
  kbq_ctor(&q, in_k, in_s);
  if (xv_threw) { XV_CANARY("ctor.rejected"); return; }
  XV_OBL("kbq.ctor.size", q._queue_size >= 1 && q._queue_size / in_k == in_s);              /* == k*num_segments without wrap-around */
  XV_OBL("kbq.ctor.state", q._k == in_k && q._head == 0 && q._tail == 0 && g_allocs == 1 && g_queue_inits == 1 && g_alloc_n == q._queue_size);
  if (in_v < q._queue_size) {
    marked_idx w = MI_make(in_v, in_m);
    XV_OBL("kbq.idx.roundtrip", MI_get(w) == in_v);
    XV_OBL("kbq.idx.roundtrip", MI_mark(w) == (in_m & TAG_MASK));
    XV_OBL("kbq.idx.roundtrip", MI_make(in_v, in_m) != MI_make(in_v, in_m + 1));
    if (in_v >= 65536) XV_CANARY("ctor.large_index");
    XV_CANARY("ctor.accepted");
  }
  if (in_k == 1 && in_s == 1) XV_CANARY("ctor.one_by_one");
}

/* circular position of x when walking forward from h on the ring of all 64-bit values (for indices below any queue size the
 * circular order of three points is the same on the ring of that size) */
static uint64_t ring_dist(uint64_t from, uint64_t x) { return x - from; }
void h_in_valid(void) {
  in_to = nondet_u64(); in_t = nondet_u64(); in_h = nondet_u64();
  _Bool r = kbq_in_valid_region((struct kbq*)0, in_to, in_t, in_h);
  _Bool spec = ring_dist(in_h, in_to) >= 1 && ring_dist(in_h, in_to) <= ring_dist(in_h, in_t);       /* to in (h, t] */
  XV_OBL("kbq.in_valid.spec", r == spec);
  if (r && in_t < in_h) XV_CANARY("in_valid.wrap_true");
  if (!r && in_t < in_h) XV_CANARY("in_valid.wrap_false");
  if (r && in_t >= in_h) XV_CANARY("in_valid.nowrap_true");
}
void h_not_in_valid(void) {
  in_to = nondet_u64(); in_t = nondet_u64(); in_h = nondet_u64();
  _Bool r = kbq_not_in_valid_region((struct kbq*)0, in_to, in_t, in_h);
  _Bool spec = !(ring_dist(in_h, in_to) <= ring_dist(in_h, in_t));                                    /* to not in [h, t] */
  XV_OBL("kbq.not_in_valid.spec", r == spec);
  if (spec && in_t < in_h) XV_CANARY("not_in_valid.wrap_outside");
  if (!spec && in_t < in_h) XV_CANARY("not_in_valid.wrap_inside");
  if (spec && in_t >= in_h) XV_CANARY("not_in_valid.nowrap_outside");
}

/* =====================================================================================================
 * shape dispatch + representation invariant of quiescent states
 * ===================================================================================================== */
#ifndef KLO
#define KLO 1
#endif
#ifndef SMASK
#define SMASK (~0u)
#endif
#define FOR_SHAPES(call) do { in_k = nondet_u64(); in_s = nondet_u64(); \
  for (unsigned k_ = KLO; k_ <= KMAX; k_++) for (unsigned S_ = 1; S_ <= SMAX; S_++) if (((SMASK >> S_) & 1) && in_k == k_ && in_s == S_) { call; } } while (0)

uint64_t g_age[NMAX], g_next_age;
static void havoc_shape(struct kbq* q, uint64_t k, uint64_t S) {
  q->_k = k; q->_queue_size = k * S;
  uint64_t hs = nondet_u64(), ts = nondet_u64(); XV_ASSUME(hs < S && ts < S);
  uint64_t htag = nondet_u64(), ttag = nondet_u64(); XV_ASSUME(htag <= TAG_MASK && ttag <= TAG_MASK);
  q->_head = (hs * k) | (htag << XV_BITS); q->_tail = (ts * k) | (ttag << XV_BITS);
  for (unsigned i = 0; i < NMAX; i++) { q->_queue[i].value = nondet_u64(); g_age[i] = nondet_u64(); }
  g_next_age = nondet_u64();
}
/* segment number of a head/tail position; S if the position is not a segment boundary inside the array */
static uint64_t seg_of_pos(uint64_t pos, uint64_t k, uint64_t S) { for (uint64_t s = 0; s < S; s++) if (pos == s * k) return s; return S; }
/* walking distance on the ring of n positions */
static uint64_t ring_off(uint64_t from, uint64_t x, uint64_t n) { return x >= from ? x - from : x + n - from; }
/* quiescent representation invariant:  head, tail on segment boundaries; with d = segments from head to tail: slots of segments beyond d are empty,
 * segments strictly between head and tail are full; ages (ghost insertion order) are distinct and increase from segment to segment */
static _Bool inv(struct kbq* q, uint64_t k, uint64_t S) {
  uint64_t size = k * S, hs = seg_of_pos(q->_head & XV_VAL_MASK, k, S), ts = seg_of_pos(q->_tail & XV_VAL_MASK, k, S);
  if (!(q->_k == k && q->_queue_size == size && hs < S && ts < S)) return 0;
  uint64_t d = ring_off(hs, ts, S);
  for (unsigned i = 0; i < NMAX; i++) if (i < size) {
    uint64_t j = ring_off(hs, i / k, S); _Bool nn = MV_get(q->_queue[i].value) != 0;
    if (j > d && nn) return 0;
    if (j > 0 && j < d && !nn) return 0;
    if (nn && !(g_age[i] < g_next_age)) return 0;
    for (unsigned i2 = 0; i2 < NMAX; i2++) if (i2 < size && i2 != i && nn && MV_get(q->_queue[i2].value) != 0) {
      if (g_age[i] == g_age[i2]) return 0;
      if (j < ring_off(hs, i2 / k, S) && !(g_age[i] < g_age[i2])) return 0;
    }
  }
  return 1;
}
static unsigned count(struct kbq* q, uint64_t size) { unsigned n = 0; for (unsigned i = 0; i < NMAX; i++) if (i < size && MV_get(q->_queue[i].value) != 0) n++; return n; }

/* =====================================================================================================
 * find_index: covers the segment, finds a matching slot iff there is one
 * ===================================================================================================== */
uint64_t in_start;
static void find_index_case(uint64_t k, uint64_t S, _Bool empty) {
  struct kbq q; havoc_shape(&q, k, S); mon_reset(&q);
  uint64_t size = k * S; in_start = nondet_u64(); XV_ASSUME(in_start < size);
  uint64_t idx = nondet_u64(), idx0 = idx; marked_value old = nondet_u64();
  _Bool r = empty ? kbq_find_index_E(&q, in_start, &idx, &old) : kbq_find_index_N(&q, in_start, &idx, &old);
  unsigned n = mon_nprobe;
  /* the probes: pairwise distinct, all inside [start, start+k) mod size */
  unsigned a = nondet_uint(), b = nondet_uint();
  XV_OBL("kbq.find_index.covers", n >= 1 && n <= k);
  if (a < n) XV_OBL("kbq.find_index.covers", mon_probe[a] < size && ring_off(in_start, mon_probe[a], size) < k);
  if (a < b && b < n) XV_OBL("kbq.find_index.covers", mon_probe[a] != mon_probe[b]);
  if (!r) XV_OBL("kbq.find_index.covers", n == k);
  /* result */
  if (r) {
    XV_OBL("kbq.find_index.result", idx < size && ring_off(in_start, idx, size) < k && old == q._queue[idx].value && (MV_get(old) == 0) == empty);
    XV_CANARY("find_index.found");
    if (n == k && k > 1) XV_CANARY("find_index.found_last");
  } else {
    uint64_t j = nondet_u64(); XV_ASSUME(j < k);
    uint64_t sl = in_start + j; if (sl >= size) sl -= size;
    XV_OBL("kbq.find_index.result", idx == idx0 && (MV_get(q._queue[sl].value) == 0) != empty);
    XV_CANARY("find_index.none");
  }
}
void h_find_index_E(void) { FOR_SHAPES(find_index_case(k_, S_, 1)); }
void h_find_index_N(void) { FOR_SHAPES(find_index_case(k_, S_, 0)); }


/* kbq.segment_empty.spec: true iff every slot of the head segment is empty (no interference) */
static void segment_empty_case(uint64_t k, uint64_t S) {
  struct kbq q; havoc_shape(&q, k, S); mon_reset(&q);
  uint64_t size = k * S, hs = nondet_u64(), tag = nondet_u64(); XV_ASSUME(hs < S && tag <= TAG_MASK);
  marked_idx h = (hs * k) | (tag << XV_BITS);
  _Bool r = kbq_segment_empty(&q, h);
  _Bool all_empty = 1;
  for (unsigned j = 0; j < KMAX; j++) if (j < k && MV_get(q._queue[hs * k + j].value) != 0) all_empty = 0;
  XV_OBL("kbq.segment_empty.spec", r == all_empty && mon_slot_cas_n == 0);
  if (r) XV_CANARY("segment_empty.true"); else XV_CANARY("segment_empty.false");
}
void h_segment_empty(void) { FOR_SHAPES(segment_empty_case(k_, S_)); }

#if XV_STUB == 1
/* SEQ contract stubs (start is a segment boundary at every call site of try_push / do_pop) */
static _Bool st_find_index(struct kbq* self, uint64_t start, uint64_t* idx_p, marked_value* old_p, _Bool empty) {
  uint64_t k = self->_k, size = self->_queue_size;
  XV_OBL("kbq.find_index.result", start < size);                      /* requires */
  _Bool r = nondet_bool();
  if (r) {
    uint64_t i = nondet_u64(); XV_ASSUME(i < size && i < NMAX && ring_off(start, i, size) < k && (MV_get(self->_queue[i].value) == 0) == empty);
    *idx_p = i; *old_p = self->_queue[i].value;
  } else {
    for (unsigned j = 0; j < KMAX; j++) if (j < k) { uint64_t sl = start + j; if (sl >= size) sl -= size; XV_ASSUME((MV_get(self->_queue[sl].value) == 0) != empty); }
    *old_p = nondet_u64();
  }
  return r;
}
static _Bool st_find_index_E(struct kbq* self, uint64_t start, uint64_t* idx_p, marked_value* old_p) { return st_find_index(self, start, idx_p, old_p, 1); }
static _Bool st_find_index_N(struct kbq* self, uint64_t start, uint64_t* idx_p, marked_value* old_p) { return st_find_index(self, start, idx_p, old_p, 0); }
static _Bool st_segment_empty(struct kbq* self, uint64_t h) {
  uint64_t k = self->_k, size = self->_queue_size, start = MI_get(h); _Bool all_empty = 1;
  XV_OBL("kbq.segment_empty.spec", start < size);
  for (unsigned j = 0; j < KMAX; j++) if (j < k) { uint64_t sl = start + j; if (sl >= size) sl -= size; if (MV_get(self->_queue[sl].value) != 0) all_empty = 0; }
  return all_empty;
}
#endif

/* =====================================================================================================
 * SEQ refinement: one operation from ANY quiescent state satisfying inv (all callees are the real text)
 * ===================================================================================================== */
uint64_t in_value;
static void snapshot(struct kbq* q, struct kbq* o) { *o = *q; }
static void push_case(uint64_t k, uint64_t S) {
  struct kbq q, o; havoc_shape(&q, k, S); mon_reset(&q); XV_ASSUME(inv(&q, k, S));
  uint64_t size = k * S; unsigned n = count(&q, size);
  in_value = nondet_u64(); XV_ASSUME(in_value != 0 && in_value <= PTR_MASK);
  snapshot(&q, &o);
  _Bool r = kbq_try_push(&q, in_value);
  XV_OBL("kbq.push.reject", !xv_threw);
  unsigned changed = 0, c = 0;
  for (unsigned i = 0; i < NMAX; i++) if (i < size && q._queue[i].value != o._queue[i].value) { changed++; c = i; }
  if (!r) {
    /* rejects only if at least (S-1)*k+1 values are stored (so never on an empty queue); nothing changes, the value stays with the caller */
    XV_OBL("kbq.push.reject", n >= (S - 1) * k + 1);
    XV_OBL("kbq.push.reject", changed == 0 && q._head == o._head && q._tail == o._tail && g_released == 0);
    XV_CANARY("push.rejected");
  } else {
    XV_OBL("kbq.push.stores", changed == 1 && MV_get(o._queue[c].value) == 0 && q._queue[c].value == MV_make(in_value, MV_mark(o._queue[c].value) + 1));
    XV_OBL("kbq.push.stores", g_released == 1);
    /* the new item sits in the (new) tail segment and is the youngest */
    uint64_t ts = seg_of_pos(q._tail & XV_VAL_MASK, k, S);
    XV_OBL("kbq.push.stores", ts < S && c / k == ts);
    g_age[c] = g_next_age; g_next_age++;
    XV_OBL("kbq.inv.preserved", inv(&q, k, S));
    if (q._tail != o._tail) XV_CANARY("push.advanced_tail");
    if (q._head != o._head && MI_get(q._head) != MI_get(o._head)) XV_CANARY("push.advanced_head");
    if (q._head != o._head && MI_get(q._head) == MI_get(o._head)) XV_CANARY("push.bumped_head");
    if (n == 0) XV_CANARY("push.on_empty");
  }
  XV_OBL("kbq.advance.by_k", mon_adv_ok && !mon_plain_store);
  XV_OBL("kbq.inv.preserved", q._k == k && q._queue_size == size);
}
void h_push(void) { FOR_SHAPES(push_case(k_, S_)); }

void h_push_null(void) {
  struct kbq q, o; in_k = nondet_u64(); in_s = nondet_u64(); XV_ASSUME(in_k >= 1 && in_k <= KMAX && in_s >= 1 && in_s <= SMAX);
  havoc_shape(&q, in_k, in_s); mon_reset(&q); snapshot(&q, &o);
  _Bool r = kbq_try_push(&q, 0);
  XV_OBL("kbq.push.reject", xv_threw == XV_EXC_std__invalid_argument && g_released == 0 && mon_slot_cas_n == 0 && mon_head_cas_n == 0 && mon_tail_cas_n == 0);
  XV_CANARY("push.null");
}

value_type in_res0;
static void pop_case(uint64_t k, uint64_t S) {
  struct kbq q, o; havoc_shape(&q, k, S); mon_reset(&q); XV_ASSUME(inv(&q, k, S));
  uint64_t size = k * S; unsigned n = count(&q, size);
  in_res0 = nondet_uptr(); value_type res = in_res0;
  snapshot(&q, &o);
  _Bool r = kbq_do_pop(&q, &res);
  unsigned changed = 0, c = 0;
  for (unsigned i = 0; i < NMAX; i++) if (i < size && q._queue[i].value != o._queue[i].value) { changed++; c = i; }
  XV_OBL("kbq.pop.empty", r == (n != 0));
  if (!r) {
    XV_OBL("kbq.pop.empty", changed == 0 && res == in_res0 && g_stored == 0);
    XV_CANARY("pop.empty");
    if (q._head != o._head) XV_CANARY("pop.empty_after_advancing");
  } else {
    XV_OBL("kbq.pop.oldest_segment", changed == 1 && MV_get(o._queue[c].value) != 0 && q._queue[c].value == MV_make(0, MV_mark(o._queue[c].value) + 1));
    XV_OBL("kbq.pop.oldest_segment", res == MV_get(o._queue[c].value) && g_stored == 1);
    /* c lies in the oldest non-empty segment: every segment before it (walking from the old head) was empty */
    uint64_t hs = seg_of_pos(o._head & XV_VAL_MASK, k, S), jc = ring_off(hs, c / k, S); unsigned older = 0;
    for (unsigned i = 0; i < NMAX; i++) if (i < size && MV_get(o._queue[i].value) != 0) {
      XV_OBL("kbq.pop.oldest_segment", ring_off(hs, i / k, S) >= jc);
      if (g_age[i] < g_age[c]) older++;
    }
    XV_OBL("kbq.pop.k_oldest", older < k);
    if (older > 0) XV_CANARY("pop.not_the_oldest");
    if (q._tail != o._tail) XV_CANARY("pop.advanced_tail");
    if (q._head != o._head) XV_CANARY("pop.advanced_head");
  }
  XV_OBL("kbq.inv.preserved", inv(&q, k, S));
  XV_OBL("kbq.advance.by_k", mon_adv_ok && !mon_plain_store);
}
void h_pop(void) { FOR_SHAPES(pop_case(k_, S_)); }

/* the freshly constructed queue satisfies inv (all slots value-initialised: null) */
static void init_case(uint64_t k, uint64_t S) {
  struct kbq q; havoc_shape(&q, k, S); q._head = XV_MI_DEFAULT; q._tail = XV_MI_DEFAULT;
  for (unsigned i = 0; i < NMAX; i++) q._queue[i].value = 0;
  XV_OBL("kbq.inv.preserved", inv(&q, k, S));
  XV_CANARY("init.reached");
}
void h_init(void) { FOR_SHAPES(init_case(k_, S_)); }

/* C07: the destructor destroys every value still inside exactly once (values are distinct objects; any slot contents, inv not needed) */
static void dtor_case(uint64_t k, uint64_t S) {
  struct kbq q; havoc_shape(&q, k, S); mon_reset(&q);
  uint64_t size = k * S; unsigned n = count(&q, size); g_track = nondet_uptr(); XV_ASSUME(g_track != 0);
  unsigned tracked = 0;
  for (unsigned i = 0; i < NMAX; i++) if (i < size && MV_get(q._queue[i].value) == g_track) tracked++;
  XV_ASSUME(tracked <= 1);
  kbq_dtor(&q);
  XV_OBL("kbq.dtor.each_once", g_deleted_tracked == tracked && g_deleted_tracked + g_deleted_other == n);
  if (tracked && n > 1) XV_CANARY("dtor.tracked");
  if (n == 0) XV_CANARY("dtor.empty");
}
void h_dtor(void) { FOR_SHAPES(dtor_case(k_, S_)); }
