/* unit kbq - kirsch_bounded_kfifo_queue (C06, ownership part of C07).  Contracts, stubs, ghost state, harnesses only;
 * every function body under contract comes from lowered.h (extracted from the repository on each run). */
#include <stdint.h>
#include <stddef.h>
struct kbq;
static void mon_load(void* addr, uint64_t v, int o);
static void mon_cas(void* addr, uint64_t e, uint64_t d, _Bool ok, int o);
static void mon_store(void* addr, uint64_t v, int o);
#define XV_ON_LOAD(addr, val, order) mon_load((void*)(addr), (uint64_t)(val), (order))
#define XV_ON_CAS(addr, e, d, ok, order) mon_cas((void*)(addr), (uint64_t)(e), (uint64_t)(d), (ok), (order))
#define XV_ON_STORE(addr, val, order) mon_store((void*)(addr), (uint64_t)(val), (order))
#include "xv.h"
int xv_threw; uint64_t xv_clock, xv_rmw_old; _Bool xv_cas_ok;
#define XV_EXC_std__invalid_argument 1
#define XV_EXC_std__bad_alloc 2

/* ---- shapes ---- */
#ifndef KMAX
#define KMAX 3
#endif
#ifndef SMAX
#define SMAX 3
#endif
#define NMAX (KMAX * SMAX)

/* ---- types ---- */
typedef uint64_t marked_idx;       /* struct marked_idx { uint64_t _val; } : its one word */
typedef uint64_t marked_value;     /* marked_ptr<T,16>: contract of unit mp - 48 pointer bits, 16 mark bits on top, mark trimmed */
typedef uintptr_t value_type, raw_value_type;
#define PTR_BITS 48
#define PTR_MASK ((((uint64_t)1) << PTR_BITS) - 1)
static marked_value MV_make(uint64_t p, uint64_t mark) { return p | (mark << PTR_BITS); }
static uint64_t MV_get(marked_value v) { return v & PTR_MASK; }
static uint64_t MV_mark(marked_value v) { return v >> PTR_BITS; }
struct entry { marked_value value; };
struct kbq { uint64_t _queue_size; size_t _k; marked_idx _head; marked_idx _tail; struct entry _queue[NMAX]; };
#define bits XV_BITS
#define val_mask XV_VAL_MASK

/* ---- utils::random(): an arbitrary value on every call ---- */
static uint64_t xv_random(void) { return nondet_u64(); }

/* ---- pointer_queue_traits: ghost ownership ---- */
unsigned g_released, g_stored, g_deleted_tracked, g_deleted_other; raw_value_type g_track;
static raw_value_type TR_get_raw(value_type v) { return v; }
static void TR_release(value_type v) { g_released++; }
#define TR_store(target, raw) do { (target) = (raw); g_stored++; } while (0)
static void TR_delete_value(raw_value_type raw) { if (raw != 0) { if (raw == g_track) g_deleted_tracked++; else g_deleted_other++; } }

/* ---- do_pop is instantiated with the two lambdas of try_pop ---- */
static _Bool kbq_pop_success(value_type* result_p, marked_value* v_p);
static _Bool kbq_pop_empty(void);
#define XV_SUCCESSFUNC(v) kbq_pop_success(result_p, &(v))
#define XV_EMPTYFUNC() kbq_pop_empty()

/* ---- monitors ---- */
struct kbq* mon_q;
unsigned mon_nprobe; uint64_t mon_probe[KMAX > 16 ? KMAX : 16];
_Bool mon_adv_ok = 1, mon_plain_store;
static uint64_t MI_get(marked_idx), MI_mark(marked_idx); static marked_idx MI_make(uint64_t, uint64_t);
static void mon_load(void* addr, uint64_t v, int o) {
  if ((char*)addr >= (char*)&mon_q->_queue[0] && (char*)addr < (char*)&mon_q->_queue[NMAX]) {
    uint64_t s = (uint64_t)((struct entry*)addr - &mon_q->_queue[0]);
    if (mon_nprobe < sizeof mon_probe / sizeof mon_probe[0]) mon_probe[mon_nprobe] = s;
    mon_nprobe++;
  }
}
static void mon_store(void* addr, uint64_t v, int o) { mon_plain_store = 1; }
static void mon_cas(void* addr, uint64_t e, uint64_t d, _Bool ok, int o);

#include "lowered.h"

/* head/tail change only by CAS from the value read, to (index+k mod size, tag+1) or - head only - to (index, tag+1) */
static void mon_cas(void* addr, uint64_t e, uint64_t d, _Bool ok, int o) {
  if (addr == (void*)&mon_q->_head || addr == (void*)&mon_q->_tail) {
    uint64_t adv = MI_get(e) + mon_q->_k; if (adv >= mon_q->_queue_size) adv -= mon_q->_queue_size;
    _Bool moved = MI_get(d) == adv, bumped = MI_get(d) == MI_get(e) && addr == (void*)&mon_q->_head;
    if (!((moved || bumped) && MI_mark(d) == ((MI_mark(e) + 1) & (~(uint64_t)0 >> bits)))) mon_adv_ok = 0;
  }
}

/* =====================================================================================================
 * pure obligations
 * ===================================================================================================== */
uint64_t in_v, in_m, in_size;
/* every index the queue can hold is < _queue_size; the constructor decides which sizes exist (see h_ctor). */
void h_idx_roundtrip(void) {
  in_v = nondet_u64(); in_m = nondet_u64(); in_size = nondet_u64();
  XV_ASSUME(in_size <= XV_CTOR_MAX_SIZE && in_v < in_size);
  marked_idx w = MI_make(in_v, in_m);
  XV_OBL("kbq.idx.roundtrip", MI_get(w) == in_v);
  XV_OBL("kbq.idx.roundtrip", MI_mark(w) == (in_m & (~(uint64_t)0 >> bits)));
  XV_OBL("kbq.idx.roundtrip", (MI_make(in_v, in_m) == MI_make(in_v, in_m + 1)) == 0);
  if (in_v > 65536) XV_CANARY("idx.large");
  if (in_m >> 60) XV_CANARY("idx.mark_trimmed");
}
