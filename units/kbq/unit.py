F = 'xenium/kirsch_bounded_kfifo_queue.hpp'
CLS = r'kirsch_bounded_kfifo_queue<T, Policies\.\.\.>::'
# receivers whose .get()/.mark() are marked_idx methods; every other receiver is a marked_value (marked_ptr<T,16>)
# They are found by their declared type in the header (parameters and locals of type marked_idx), not by a fixed list of names.
import os as _os, re as _re
try:
    _src = open(_os.path.join(_os.environ.get('XV_REPO', '/repo'), F), errors='replace').read()
    MI = sorted(set(_re.findall(r'\bmarked_idx\s*&?\s*([A-Za-z_]\w*)\s*[,;)=({]', _src)) | {'tail_old', 'head_old', 'tail_current', 'head_current'})
except OSError:
    MI = ['tail_old', 'head_old', 'tail_current', 'head_current']
GET = dict({r: 'MI_get' for r in MI}, **{'*': 'MV_get'})
MARK = dict({r: 'MI_mark' for r in MI}, **{'*': 'MV_mark'})
COMMON = dict(members=['_queue_size', '_k', '_head', '_tail', '_queue'],
              methods={'get': GET, 'mark': MARK},
              subst=[(r'\bmarked_idx (\w+)\(([^;]*)\);', r'marked_idx \1 = MI_make(\2);', 'mi_ctor'),
                     (r'\bmarked_idx\(', 'MI_make(', 'mi_temp'),      # marked_idx(a, b) as an expression (temporary)
                     (r'\b(const )?marked_value (\w+)\(([^;]*)\);', r'\1marked_value \2 = MV_make(\3);', 'mv_ctor'),
                     (r'\btraits::', 'TR_', 'traits'), (r'\butils::random\(\)', 'xv_random()', 'random'),
                     (r'find_index<true>\((.*?), idx, old_value\)', r'CALL_find_index_E(self, \1, &idx, &old_value)', 'find_index_call'),
                     (r'find_index<false>\((.*?), idx, old_value\)', r'CALL_find_index_N(self, \1, &idx, &old_value)', 'find_index_call')],
              self_calls={'queue_full': 'CALL_queue_full', 'segment_empty': 'CALL_segment_empty', 'committed': 'CALL_committed',
                          'in_valid_region': 'kbq_in_valid_region', 'not_in_valid_region': 'kbq_not_in_valid_region'})
def src(id, sig, c_sig, **kw):
    d = dict(COMMON); d.update(id=id, file=F, sig=sig, c_sig=c_sig)
    if 'subst' in kw: kw['subst'] = COMMON['subst'] + kw['subst']
    d.update(kw); return d
def wrap_ctor(text, lw):   # { _val = ...; }  ->  { uint64_t _val; _val = ...; return _val; }   (a constructor of a one-word class becomes a function returning the word)
    return '{ uint64_t _val;' + text.strip()[1:-1] + ' return _val; }'
FI_SUBST = [(r'\bvalue_index\b', '(*value_index_p)', 'ref_value_index'), (r'\bold\b', '(*old_p)', 'ref_old')]
FI_SIG = r'bool ' + CLS + r'find_index\(uint64_t start_index,\s*uint64_t& value_index,\s*marked_value& old\)'
QT = ['quick', 'thorough']; TT = ['thorough']
UNIT = dict(
  title='kirsch_bounded_kfifo_queue: index word, slot scan, valid-region predicates, committed, try_push, try_pop, constructor, destructor (C06, C07)',
  properties=['C06', 'C07'],
  drops='templates (value_type / raw_value_type = opaque non-null word below 2^48); marked_idx is its one 64-bit word, the constructor/get/mark texts operate on that word; '
        'marked_value = marked_ptr<T,16> is a 64-bit word with the contract of unit mp (48 pointer bits, 16 mark bits on top); the entry array is a C array of K*S words (padding dropped); '
        'find_index<Empty> is lowered twice (Empty=1 / Empty=0); the lambdas passed to do_pop by try_pop are extracted and lowered as functions, do_pop is lowered with these two in place of '
        'successFunc/emptyFunc (try_pop itself, a one-line call of do_pop with these lambdas, and pop(), the std::optional flavour of the same do_pop, are not lowered); by-reference parameters are pointers; '
        'pointer_queue_traits calls are ghost-ownership stubs; `new entry[n]()` is an allocation stub (bad_alloc above 2^59 entries, records n); a 64-bit division in the constructor is evaluated once and remembered '
        '(XV_UDIV) so that kbq.ctor.size can name that quotient; XENIUM_VERIF_POINT hooks expand to nothing; all SEQ runs use the real text of every callee, only the two INT validation runs '
        '(push_int, pop_int) replace find_index/queue_full/segment_empty/committed by recording stubs that answer arbitrarily within their contracts',
  assumptions=['marked_ptr<T,16> make/get/mark: contract of unit mp (C15) used as the model of marked_value',
               'pointer_queue_traits get_raw/release/store/delete_value: ownership stubs (their text is covered by the C07 traits unit)',
               'mark/tag counters do not wrap during one operation (16-bit slot marks, (64-bits)-bit index tags); fewer than 2^63 pushes (ghost age counter)',
               'kbq.ctor.size pins the form of the wrap-around test (quotient _queue_size / k compared with num_segments): cbmc cannot prove bounds of 64x64-bit products, so the obligation refers to the quotient the constructor computed',
               'SEQ obligations are stated for quiescent states satisfying the representation invariant inv (boundaries, empty outside [head,tail], full strictly inside); that inv is inductive is obligation kbq.inv.preserved',
               '[INT] rely of kbq.push.commit: other threads move head/tail only forward by whole segments keeping 0 <= tail-head <= size-k, a head CAS prepared before the item was inserted can still succeed until the head word changes, '
               'head does not leave a segment whose scan must have seen the item, the inserted item only ever changes by being taken'],
  consts=[dict(name='XV_POP_OPTIONAL_TARGET', file=F, regex=r'::pop\(\) -> std::optional<value_type> \{\s*return (\w+)\(\s*\[\]\(auto& v\)'), dict(name='XV_SLOT_MARK_BITS', file=F, regex=r'using marked_value = xenium::marked_ptr<std::remove_pointer_t<raw_value_type>,\s*(\d+)>;'), dict(name='XV_MAX_UPPER_MARK_BITS', file='xenium/marked_ptr.hpp', regex=r'#\s*define XENIUM_MAX_UPPER_MARK_BITS (\d+)'), dict(name='XV_BITS', file=F, regex=r'static constexpr unsigned bits = ([^;]+);'),
          dict(name='XV_VAL_MASK', file=F, regex=r'static constexpr uint64_t val_mask = ([^;]+);', subst=[(r'static_cast<uint64_t>\(1\)', '((uint64_t)1)'), (r'\bbits\b', 'XV_BITS')]),
          dict(name='XV_MI_DEFAULT', file=F, regex=r'uint64_t _val = ([^;]+);')],
  sources=[
    dict(id='mi_ctor', file=F, sig=r'marked_idx\(uint64_t val, uint64_t mark\) noexcept', c_sig='static marked_idx MI_make(uint64_t val, uint64_t mark)',
         py_post=wrap_ctor, must_fire={}),
    dict(id='mi_get', file=F, sig=r'uint64_t get\(\) const noexcept', c_sig='static uint64_t MI_get(marked_idx _val)', must_fire={}),
    dict(id='mi_mark', file=F, sig=r'uint64_t mark\(\) const noexcept', c_sig='static uint64_t MI_mark(marked_idx _val)', must_fire={}),
    src('in_valid_region', r'bool ' + CLS + r'in_valid_region\(', 'static _Bool kbq_in_valid_region(struct kbq* self, uint64_t tail_old, uint64_t tail_current, uint64_t head_current)', must_fire={}),
    src('not_in_valid_region', r'bool ' + CLS + r'not_in_valid_region\(', 'static _Bool kbq_not_in_valid_region(struct kbq* self, uint64_t tail_old, uint64_t tail_current, uint64_t head_current)', must_fire={}),
    src('find_index_E', FI_SIG, 'static _Bool kbq_find_index_E(struct kbq* self, uint64_t start_index, uint64_t* value_index_p, marked_value* old_p)',
        subst=FI_SUBST + [(r'\bEmpty\b', '1', 'Empty')], must_fire={'A_LOAD': 1, 'subst:Empty': 2, 'subst:random': 1, 'method:get': 2}),
    src('find_index_N', FI_SIG, 'static _Bool kbq_find_index_N(struct kbq* self, uint64_t start_index, uint64_t* value_index_p, marked_value* old_p)',
        subst=FI_SUBST + [(r'\bEmpty\b', '0', 'Empty')], must_fire={'A_LOAD': 1, 'subst:Empty': 2, 'subst:random': 1, 'method:get': 2}),
    src('segment_empty', r'bool ' + CLS + r'segment_empty\(const marked_idx& head_old\) const', 'static _Bool kbq_segment_empty(struct kbq* self, marked_idx head_old)',
        must_fire={'A_LOAD': 1, 'method:get': 2}),
    src('queue_full', r'bool ' + CLS + r'queue_full\(', 'static _Bool kbq_queue_full(struct kbq* self, marked_idx head_old, marked_idx tail_old)', must_fire={'A_LOAD': 1, 'method:get': 2}),
    src('committed', r'bool ' + CLS + r'committed\(', 'static _Bool kbq_committed(struct kbq* self, marked_idx tail_old, marked_value value, uint64_t index)',
        must_fire={'A_LOAD': 3, 'A_CAS': 3, 'subst:mi_ctor': 1, 'subst:mv_ctor': 2, 'self_call:in_valid_region': 1, 'self_call:not_in_valid_region': 1}),
    src('try_push', r'bool ' + CLS + r'try_push\(value_type value\)', 'static _Bool kbq_try_push(struct kbq* self, value_type value)',
        must_fire={'A_LOAD': 4, 'A_CAS': 3, 'throw': 1, 'subst:find_index_call': 1, 'subst:mi_ctor': 2, 'subst:mv_ctor': 1, 'self_call:committed': 1, 'self_call:queue_full': 1, 'self_call:segment_empty': 1}),
    src('try_push_cut', r'bool ' + CLS + r'try_push\(value_type value\)', 'static _Bool kbq_try_push_cut(struct kbq* self, value_type value)',
        cut_loops={0: 'PUSH'}, havoc_exempt=['tail_old', 'head_old', 'idx', 'old_value', 'found_idx', 'new_value', 'new_head', 'new_tail'],
        must_fire={'A_LOAD': 4, 'A_CAS': 3, 'cut_loop': 1}),
    src('pop_success', r'\[&result\]\(auto& v\)', 'static _Bool kbq_pop_success(value_type* result_p, marked_value* v_p)',
        subst=[(r'\bresult\b', '(*result_p)', 'ref_result'), (r'\bv\b', '(*v_p)', 'ref_v')], must_fire={'subst:traits': 1, 'method:get': 1}),
    src('pop_empty', r'\[\]\(\) (?=\{ return false)', 'static _Bool kbq_pop_empty(void)', must_fire={}),
    # pop(): the std::optional flavour of try_pop - the two lambdas it passes to do_pop, extracted as functions (std::optional<value_type> is a {present, value} pair)
    src('opt_success', r'\[\]\(auto& v\) (?=\{ return traits::get)', 'static value_type kbq_opt_success(marked_value* v_p)', deref={},
        subst=[(r'\bv\b', '(*v_p)', 'ref_v')], must_fire={'subst:traits': 1, 'method:get': 1}),
    src('opt_empty', r'\[\]\(\) -> std::optional<value_type> ', 'static struct xv_opt kbq_opt_empty(void)', pre_subst=[(r'std::nullopt', 'XV_NULLOPT', 'nullopt')], must_fire={'subst:nullopt': 1}),
    src('do_pop', r'auto ' + CLS + r'do_pop\(SuccessFunc successFunc, EmptyFunc emptyFunc\)', 'static _Bool kbq_do_pop(struct kbq* self, value_type* result_p)',
        calls={'successFunc': 'XV_SUCCESSFUNC', 'emptyFunc': 'XV_EMPTYFUNC'},
        must_fire={'A_LOAD': 4, 'A_CAS': 3, 'subst:find_index_call': 1, 'call:successFunc': 1, 'call:emptyFunc': 1, 'subst:mi_ctor': 2, 'subst:mv_ctor': 1}),
    src('do_pop_cut', r'auto ' + CLS + r'do_pop\(SuccessFunc successFunc, EmptyFunc emptyFunc\)', 'static _Bool kbq_do_pop_cut(struct kbq* self, value_type* result_p)',
        calls={'successFunc': 'XV_SUCCESSFUNC', 'emptyFunc': 'XV_EMPTYFUNC'}, cut_loops={0: 'POP'},
        havoc_exempt=['tail_old', 'head_old', 'idx', 'old_value', 'found_idx', 'new_value', 'new_head', 'new_tail'],
        must_fire={'A_LOAD': 4, 'A_CAS': 3, 'cut_loop': 1}),
    src('ctor', CLS + r'kirsch_bounded_kfifo_queue\(uint64_t k, uint64_t num_segments\)', 'static void kbq_ctor(struct kbq* self, uint64_t k, uint64_t num_segments)', ctor=True,
        subst=[(r'\bmarked_idx::val_mask\b', 'val_mask', 'val_mask'), (r'\b(\w+) / (\w+)\b', r'XV_UDIV(\1, \2)', 'udiv')],
        post_subst=[(r'new entry\[([^\]]*)\]\(\)', r'XV_NEW_ENTRIES(self, \1)', 'new_entries'),
                    (r'self->_queue\.reset\((XV_NEW_ENTRIES\([^;]*\))\);', r'XV_INIT__queue(self, \1); if (xv_threw) { XV_RET; }', 'queue_reset'),
                    (r'(XV_INIT__queue\(self, XV_NEW_ENTRIES\([^;]*\)\);)(?! if \(xv_threw\))', r'\1 if (xv_threw) { XV_RET; }', 'new_may_throw')],
        must_fire={'ctor_init': 5, 'subst:new_entries': 1}),
    src('dtor', CLS + r'~kirsch_bounded_kfifo_queue\(\)', 'static void kbq_dtor(struct kbq* self)', must_fire={'A_LOAD': 1, 'subst:traits': 1, 'method:get': 1}),
  ],
  runs=[dict(id='slot_word', entry='h_slot_word', cls='unbounded', note='static fact about the slot word type'), dict(id='pop_optional', entry='h_pop_optional', cls='unbounded', note='the functors of pop(), all slot words'), 
    dict(id='ctor', entry='h_ctor', cls='unbounded', trace_defs={'XV_TRACE_SMALL': 1}, note='all 64-bit k >= 1, num_segments >= 1, v, mark'),
    dict(id='in_valid', entry='h_in_valid', cls='unbounded'),
    dict(id='not_in_valid', entry='h_not_in_valid', cls='unbounded'),
  ] + [dict(id='find_index_%s_k%d' % (v, K), entry='h_find_index_' + v, cls='shape-complete', tiers=['quick', 'thorough'] if K <= 8 else ['thorough'],
            defs={'KMAX': K, 'KLO': K, 'SMAX': 4, 'SMASK': '10u' if K > 4 else '30u'}, unwindset=['kbq_find_index_%s.0:%d' % (v, K + 1)],
            note='k = %d, segments in %s' % (K, '{1,3}' if K > 4 else '{1,2,3,4}')) for K in range(1, 17) for v in 'EN'] + [
  ] + [dict(id='%s_k%d_s%s' % (op, K, sn), entry='h_' + op, cls='shape-complete', tiers=tiers, defs={'KMAX': K, 'KLO': K, 'SMAX': SM, 'SMASK': mask}, unwind=K * SM + 1,
            unwindset=['kbq_try_push.1:3', 'kbq_do_pop.0:%d' % (SM + 1), 'kbq_find_index_E.0:%d' % (K + 1), 'kbq_find_index_N.0:%d' % (K + 1), 'kbq_segment_empty.0:%d' % (K + 1)],
            flags=['--object-bits', '10'], timeout=1500, note='k = %d, segments in %s; all callees real text' % (K, sn))
         for op in ('push', 'pop')
         for (K, SM, mask, sn, tiers) in [(1, 3, '14u', '123', QT), (2, 3, '14u', '123', QT), (3, 2, '6u', '12', QT), (3, 3, '8u', '3', QT),
                                          (1, 4, '16u', '4', TT), (2, 4, '16u', '4', TT), (3, 4, '16u', '4', TT), (4, 2, '6u', '12', TT), (4, 3, '8u', '3', TT)]] + [
    dict(id='push_null', entry='h_push_null', cls='shape-complete', unwind=10),
    dict(id='segment_empty', entry='h_segment_empty', cls='shape-complete', defs={'KMAX': 4, 'SMAX': 4}, unwind=17, flags=['--object-bits', '10']),
    dict(id='init', entry='h_init', cls='shape-complete', defs={'KMAX': 4, 'SMAX': 4}, unwind=17),
    dict(id='dtor', entry='h_dtor', cls='shape-complete', defs={'KMAX': 3, 'SMAX': 3}, unwind=10, unwindset=['kbq_dtor.0:10'], solver=['--sat-solver', 'cadical'], note='minisat does not finish on this instance, cadical needs 0.2 s'),
    dict(id='committed_int', entry='h_committed_int', mode='INT', cls='shape-complete', defs={'KMAX': 3, 'SMAX': 4, 'XV_ATOMIC_SNAPSHOT': 1}, unwind=13, flags=['--object-bits', '10'],
         note='k in 1..3, segments in 1..4; environment = transitive closure of the other threads\' moves (rely in assumptions); the (tail, head) pair read by committed() is an atomic snapshot'),
    dict(id='committed_int_split', entry='h_committed_int', mode='INT', cls='shape-complete', defs={'KMAX': 3, 'SMAX': 4}, unwind=13, flags=['--object-bits', '10'],
         note='as committed_int, but the environment may also move head/tail between the two loads of committed(): known finding F12b'),
    dict(id='push_int', entry='h_push_int', mode='INT', cls='shape-complete', defs={'KMAX': 2, 'SMAX': 2, 'XV_STUB': 1}, unwind=5,
         note='retry loop cut (one arbitrary iteration), arbitrary environment, callees = recording stubs'),
    dict(id='pop_int', entry='h_pop_int', mode='INT', cls='shape-complete', defs={'KMAX': 2, 'SMAX': 2, 'XV_STUB': 1}, unwind=5,
         note='retry loop cut (one arbitrary iteration), arbitrary environment, callees = recording stubs'),
  ],
  obligations={
    'kbq.pop_optional.same_as_try_pop': dict(deciding=True, text='pop() forwards to the same do_pop as try_pop; its success functor hands out traits::get of exactly the pointer try_pop would store (once), its empty functor an empty optional: pop() returns a value iff try_pop would succeed, and the same one'),
    'kbq.slot.any_pointer': dict(deciding=True, text='the version tag of a slot (marked_value) fits into the upper mark bits of marked_ptr (MarkBits <= XENIUM_MAX_UPPER_MARK_BITS): no low bit of the stored pointer is used, so every pointer value - whatever its alignment, e.g. a char* - round-trips through the queue'),
    'kbq.push.commit_split_snapshot': dict(deciding=True, text='[INT] as kbq.push.commit, with an environment step between the load of _tail and the load of _head in committed(): known finding F12b (the pair may describe a region that never existed)'),
    'kbq.idx.roundtrip': dict(deciding=True, text='for every (k, num_segments) the constructor accepts and every v < k*num_segments: marked_idx(v, m).get() == v, .mark() == m mod 2^(64-bits), and tag+1 gives a different word'),
    'kbq.ctor.size': dict(deciding=True, text='an accepted constructor call has _queue_size >= 1 and has passed the exact no-wrap test (k*num_segments mod 2^64) / k == num_segments, i.e. _queue_size == k*num_segments'),
    'kbq.ctor.state': dict(deciding=True, text='an accepted constructor call leaves _k == k, head == tail == (index 0, tag 0) and one value-initialised array of _queue_size entries'),
    'kbq.in_valid.spec': dict(deciding=True, text='in_valid_region(tail_old, tail, head) <=> tail_old lies in the circular interval (head, tail]'),
    'kbq.not_in_valid.spec': dict(deciding=True, text='not_in_valid_region(tail_old, tail, head) <=> tail_old lies outside the circular interval [head, tail]'),
    'kbq.find_index.covers': dict(deciding=True, text='for every random start the probes of find_index are pairwise distinct slots of [start, start+k) mod size, and all k of them are probed before false is returned'),
    'kbq.segment_empty.spec': dict(deciding=False, text='segment_empty(head) <=> all k slots of the head segment are empty'),
    'kbq.push.reject': dict(deciding=True, text='[SEQ] try_push returns false only if at least (S-1)*k+1 values are stored (never on an empty queue); then nothing is modified and the value stays with the caller (C07); a null value throws before anything is touched'),
    'kbq.push.stores': dict(deciding=True, text='[SEQ] a successful try_push fills exactly one empty slot of the (possibly advanced) tail segment with (value, mark+1) and takes ownership exactly once'),
    'kbq.pop.empty': dict(deciding=True, text='[SEQ] try_pop reports empty <=> no value is stored; then no slot and no result is modified'),
    'kbq.pop.oldest_segment': dict(deciding=True, text='[SEQ] a successful try_pop empties exactly one slot (null, mark+1), returns its value once, and that slot lies in the oldest non-empty segment'),
    'kbq.pop.k_oldest': dict(deciding=True, text='[SEQ] fewer than k stored values are older than the value try_pop returns'),
    'kbq.inv.preserved': dict(deciding=True, text='[SEQ] constructor state and every operation keep the representation invariant (boundaries, empty outside [head,tail], full strictly inside, ages increase segment-wise)'),
    'kbq.advance.by_k': dict(deciding=True, text='head and tail are only changed by CAS from the word read to (index+k mod size, tag+1) - head also to (index, tag+1) in committed'),
    'kbq.dtor.each_once': dict(deciding=True, text='the destructor passes every non-null stored value to delete_value exactly once (C07)'),
    'kbq.push.commit': dict(deciding=True, text='[INT] committed (hence try_push) returns true only if a consumer took the value or the item is in its slot inside the circular region [head, tail] and no head advance that missed it can still succeed'),
    'kbq.committed.withdrawn': dict(deciding=True, text='[INT] committed returns false only after its own CAS removed the item (never when a consumer took it)'),
    'kbq.push.validate': dict(deciding=True, text='[INT] try_push: slot CAS expects the word find_index read, after re-reading an unchanged tail; true needs committed(tail read, new word, idx) and releases the value once; false needs full observed for unchanged head/tail and leaves the value with the caller'),
    'kbq.pop.validate': dict(deciding=True, text='[INT] do_pop: slot CAS expects the word find_index read, after re-reading an unchanged head; tail is moved on first when head and tail index the same segment; empty needs no match, head==tail and unchanged tail'),
    'kbq.sync.scan_acquire': dict(deciding=True, text='sync precondition: the slot loads of find_index and segment_empty are acquire-or-stronger (they pair with the release CAS of push/pop)'),
    'kbq.sync.slot_release': dict(deciding=True, text='sync precondition: the slot CAS of push and pop is release-or-stronger'),
    'kbq.find_index.result': dict(deciding=True, text='find_index returns true with the index and the value of a matching slot of the segment, false only if no slot of the segment matches'),
  },
  canaries=['slot_word.reached', 'pop_optional.reached', 'ctor.rejected', 'ctor.large_index', 'ctor.accepted', 'ctor.one_by_one', 'in_valid.wrap_true', 'in_valid.wrap_false', 'in_valid.nowrap_true',
            'not_in_valid.wrap_outside', 'not_in_valid.wrap_inside', 'not_in_valid.nowrap_outside', 'find_index.found', 'find_index.found_last', 'find_index.none',
            'push.rejected', 'push.advanced_tail', 'push.advanced_head', 'push.bumped_head', 'push.on_empty', 'push.null', 'pop.empty', 'pop.empty_after_advancing', 'pop.not_the_oldest',
            'pop.advanced_tail', 'pop.advanced_head', 'init.reached', 'dtor.tracked', 'dtor.not_stored', 'segment_empty.true', 'segment_empty.false',
            'committed.taken', 'committed.at_head', 'committed.inside', 'committed.withdrawn', 'push_int.true', 'push_int.false', 'pop_int.moved_tail', 'pop_int.true', 'pop_int.empty'],
  replays={'kbq.idx.roundtrip': dict(src='replay_idx.cpp'), 'kbq.ctor.size': dict(src='replay_idx.cpp'),
           'kbq.in_valid.spec': dict(src='replay_region.cpp'), 'kbq.not_in_valid.spec': dict(src='replay_region.cpp'),
           'kbq.push.reject': dict(src='replay_seq.cpp', fixed={'op': 0}), 'kbq.push.stores': dict(src='replay_seq.cpp', fixed={'op': 0}),
           'kbq.pop.empty': dict(src='replay_seq.cpp', fixed={'op': 1}), 'kbq.pop.oldest_segment': dict(src='replay_seq.cpp', fixed={'op': 1}), 'kbq.pop.k_oldest': dict(src='replay_seq.cpp', fixed={'op': 1}),
           # schedule replay (no inputs): native_f12 + native_commit_order; the second needs the extra schedule point of units/kbq/hook_committed.diff
           'kbq.push.commit': dict(src='replay_commit.cpp', no_inputs=True)},
  loop_obligation={'PUSH': 'kbq.push.validate', 'POP': 'kbq.pop.validate'},
)
