// native replay for kbq.idx.roundtrip / kbq.ctor.size: constructs the real queue with cbmc's (k, num_segments) and, if accepted, sends cbmc's
// index v (< k*num_segments) and tag m through the real marked_idx.   exit 0 holds, 1 violated, 2 cannot represent (allocation too large)
#include <xenium/kirsch_bounded_kfifo_queue.hpp>
#include <cstdio>
#include <cstdlib>
#include <cstring>
#include <map>
#include <string>
using Q = xenium::kirsch_bounded_kfifo_queue<int*>;
int main(int argc, char** argv) {
  std::map<std::string, unsigned long long> a;
  for (int i = 1; i < argc; ++i) { char* eq = strchr(argv[i], '='); if (eq) a[std::string(argv[i], eq - argv[i])] = strtoull(eq + 1, nullptr, 0); }
  std::uint64_t k = a["in_k"], s = a["in_s"], v = a["in_v"], m = a["in_m"];
  unsigned __int128 prod = (unsigned __int128)k * s;
  std::uint64_t wrapped = k * s;
  if (k == 0 || s == 0) { printf("k = 0 / zero segments: outside the property\n"); return 2; }
  if (wrapped > (1ull << 26)) { printf("k*num_segments = %llu entries: not allocated in a replay\n", (unsigned long long)wrapped); return 2; }
  int bad = 0;
  try {
    Q q(k, s);
    printf("constructor accepted k=%llu num_segments=%llu, _queue_size=%llu\n", (unsigned long long)k, (unsigned long long)s, (unsigned long long)q._queue_size);
    if ((unsigned __int128)q._queue_size != prod || q._queue_size == 0) { printf("_queue_size is not k*num_segments (the product wrapped around)\n"); bad = 1; }
    if (v < q._queue_size) {
      Q::marked_idx w(v, m);
      std::uint64_t tagmask = ~std::uint64_t(0) >> Q::marked_idx::bits;
      printf("marked_idx(%llu, %llu): get() = %llu, mark() = %llu (index bits: %u)\n", (unsigned long long)v, (unsigned long long)m, (unsigned long long)w.get(), (unsigned long long)w.mark(), Q::marked_idx::bits);
      if (w.get() != v) { printf("index %llu < _queue_size does not survive marked_idx\n", (unsigned long long)v); bad = 1; }
      if (w.mark() != (m & tagmask)) { printf("tag does not survive marked_idx\n"); bad = 1; }
      if (w == Q::marked_idx(v, m + 1)) { printf("tag+1 gives the same word\n"); bad = 1; }
    }
  } catch (const std::exception& e) { printf("constructor rejected k=%llu num_segments=%llu: %s\n", (unsigned long long)k, (unsigned long long)s, e.what()); }
  return bad;
}
