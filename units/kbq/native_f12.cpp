// F12 (C06): kirsch_bounded_kfifo_queue::not_in_valid_region has the roles of head and tail swapped.  In the wrap-around case (tail < head) it is
// constantly false, so committed() treats "my segment is outside [head, tail]" like "my segment is the head segment", bumps the head tag and
// reports success: try_push returns true for an item left outside the valid region.
// Schedule (k = 2, 4 segments; one thread plays all roles, the "other threads" run at the hook point between the pusher's tail re-check and its
// slot CAS - one legal interleaving): see the comments in main.
// Uses the guarded replay hooks of the repository: XENIUM_VERIF_POINT("kirsch_bounded_kfifo_queue.try_push.before_slot_cas") and
// xenium::utils::verif_random_hook.   build: g++ -std=c++17 -O1 -fno-access-control -DMPOETER_XENIUM_VERIF -I <hooked tree> native_f12.cpp -pthread
// exit 0 = property holds on this schedule, 1 = violated, 2 = hooks missing
#define MPOETER_XENIUM_VERIF 1
#include <xenium/kirsch_bounded_kfifo_queue.hpp>
#include <cstdio>
#include <cstring>
#ifndef XENIUM_VERIF_POINT
int main() { printf("this tree has no XENIUM_VERIF_POINT hooks (needs the MPOETER_XENIUM_VERIF hooks of the repository)\n"); return 2; }
#else
using Q = xenium::kirsch_bounded_kfifo_queue<int*>;
static int v[64]; static Q* q; static std::uint64_t R; static int stage = 0;
static std::uint64_t rnd() { return R; }
static void show(const char* what) { printf("%-34s head=%lu tail=%lu\n", what, (unsigned long)q->_head.load().get(), (unsigned long)q->_tail.load().get()); }
static void others() {      // three push/pop pairs of other threads: head 0 -> 6, tail 2 -> 0 (wrapped)
  int* r; R = 1;
  for (int id : {2, 3, 4}) { bool ok = q->try_push(&v[id]); bool ok2 = q->try_pop(r); printf("  other threads: push %d -> %d, pop -> %d\n", id, ok, ok2 ? *r : -1); show("  "); }
}
static void hook(const char* id) {
  if (stage == 1 && !strcmp(id, "kirsch_bounded_kfifo_queue.try_push.before_slot_cas")) { stage = 2; others(); }
}
int main() {
  setvbuf(stdout, nullptr, _IONBF, 0);
  for (int i = 0; i < 64; i++) v[i] = i;
  Q queue(2, 4); q = &queue; int* r; int bad = 0;
  xenium::utils::verif_random_hook = rnd; ::xenium_verif_point_hook = hook;
  R = 1; (void)q->try_push(&v[1]); (void)q->try_pop(r); show("after push 1 / pop");             // head = 0, tail = 2
  stage = 1; R = 0;
  bool ok = q->try_push(&v[10]);                                                             // X: finds slot 2 (tail segment), is paused, others run, then CAS + committed
  int xslot = -1; for (int i = 0; i < 8; i++) if (q->_queue[i].value.load().get() == &v[10]) xslot = i;
  printf("push X(10) returned %d; X sits in slot %d, ", ok, xslot); show("");
  unsigned long h = q->_head.load().get(), t = q->_tail.load().get(), seg = xslot < 0 ? 0 : (xslot / 2) * 2;
  bool x_in_slot = xslot >= 0;
  bool seg_in_region = (h <= t) ? (h <= seg && seg <= t) : (seg >= h || seg <= t);
  if (ok && x_in_slot && !seg_in_region) { printf("VIOLATION: try_push returned true although X lies in segment %lu, outside the valid region [head=%lu, tail=%lu]\n", seg, h, t); bad = 1; }
  R = 1; ok = q->try_pop(r);
  if (!ok && x_in_slot) { printf("VIOLATION: no operation is running, one value (X) is stored, try_pop reports empty\n"); bad = 1; }
  else if (ok) { printf("pop -> %d (put back)\n", *r); R = 1; (void)q->try_push(&v[10]); }
  show("after pop");
  R = 1; (void)q->try_push(&v[20]); R = 1; (void)q->try_push(&v[21]); R = 1; (void)q->try_push(&v[22]);
  show("after pushing 20, 21, 22");
  R = 0; ok = q->try_pop(r);
  printf("values stored, oldest first: 10 20 21 22; k = 2; pop -> %d\n", ok ? *r : -1);
  if (ok && *r != 10 && *r != 20) { printf("VIOLATION: pop returned %d, which is not one of the k = 2 oldest values (10, 20)\n", *r); bad = 1; }
  if (!bad) printf("property holds on this schedule\n");
  return bad;
}
#endif
