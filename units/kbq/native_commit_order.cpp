// F12b (C06): kirsch_bounded_kfifo_queue::committed() loads _tail first and _head afterwards and compares its segment against this pair.  Head and
// tail only move forward, so (tail read earlier, head read later) can be a pair that never existed: head may have passed the tail value read.
// in_valid_region then sees a bogus "wrap-around" region that contains nearly everything and committed() returns true for an item that was inserted
// behind head.  (The paper's listing reads head first: then head_read <= head_now <= tail_now and the test is sound.)
// Schedule (k = 2, 4 segments; one thread plays all roles through the two hook points):
//   pusher A: reads tail = 0, finds slot 0 empty, re-checks tail                                [hook 1: try_push.before_slot_cas]
//     others: push 2, pop 2, pop (empty)            -> head = 2, tail = 2  (segment 0 is now behind head)
//   A: slot CAS succeeds (slot 0 untouched), committed(): slot unchanged, reads tail = 2      [hook 2: committed.between_loads]
//     others: push 3, pop 3, pop (empty)            -> head = 4, tail = 4
//   A: reads head = 4: in_valid_region(tail_old = 0, tail = 2, head = 4) = true -> try_push returns true, X is outside [4, 4]
// Uses the guarded replay hooks of the repository plus ONE more schedule point, XENIUM_VERIF_POINT("kirsch_bounded_kfifo_queue.committed.between_loads")
// between the two loads of committed() (units/kbq/hook_committed.diff); without it the program reports "hook point never reached" and exits 2.  build: g++ -std=c++17 -O1 -fno-access-control -DMPOETER_XENIUM_VERIF -I <hooked tree> ...
// exit 0 = property holds on this schedule, 1 = violated, 2 = hooks missing
#define MPOETER_XENIUM_VERIF 1
#include <xenium/kirsch_bounded_kfifo_queue.hpp>
#include <cstdio>
#include <cstring>
#ifndef XENIUM_VERIF_POINT
int main() { printf("this tree has no XENIUM_VERIF_POINT hooks (needs the MPOETER_XENIUM_VERIF hooks of the repository)\n"); return 2; }
#else
using Q = xenium::kirsch_bounded_kfifo_queue<int*>;
static int v[64]; static Q* q; static std::uint64_t R; static int stage = 0;
static std::uint64_t rnd() { return R; }
static void show(const char* what) { printf("%-34s head=%lu tail=%lu\n", what, (unsigned long)q->_head.load().get(), (unsigned long)q->_tail.load().get()); }
static void others(int id) {
  int* r; int st = stage; stage = 0; R = 1;
  bool ok = q->try_push(&v[id]); bool ok2 = q->try_pop(r); bool ok3 = q->try_pop(r);
  printf("  other threads: push %d -> %d, pop -> %s, pop -> %s\n", id, ok, ok2 ? "value" : "empty", ok3 ? "value" : "empty"); show("  ");
  stage = st;
}
static void hook(const char* id) {
  if (stage == 1 && !strcmp(id, "kirsch_bounded_kfifo_queue.try_push.before_slot_cas")) { stage = 2; others(2); R = 0; }
  else if (stage == 2 && !strcmp(id, "kirsch_bounded_kfifo_queue.committed.between_loads")) { stage = 3; others(3); R = 0; }
}
int main() {
  setvbuf(stdout, nullptr, _IONBF, 0);
  for (int i = 0; i < 64; i++) v[i] = i;
  Q queue(2, 4); q = &queue; int* r; int bad = 0;
  xenium::utils::verif_random_hook = rnd; ::xenium_verif_point_hook = hook;
  stage = 1; R = 0;
  bool ok = q->try_push(&v[10]);
  if (stage != 3) { printf("hook point kirsch_bounded_kfifo_queue.committed.between_loads never reached (stage %d): apply units/kbq/hook_committed.diff\n", stage); return 2; }
  stage = 0;
  unsigned long h = q->_head.load().get(), t = q->_tail.load().get();
  int xslot = -1; for (int i = 0; i < 8; i++) if (q->_queue[i].value.load().get() == &v[10]) xslot = i;
  printf("push X(10) returned %d; X sits in slot %d, ", ok, xslot); show("");
  unsigned long seg = xslot < 0 ? 0 : (xslot / 2) * 2;
  bool seg_in_region = (h <= t) ? (h <= seg && seg <= t) : (seg >= h || seg <= t);
  if (ok && xslot >= 0 && !seg_in_region) { printf("VIOLATION: try_push returned true although X lies in segment %lu, outside the valid region [head=%lu, tail=%lu]\n", seg, h, t); bad = 1; }
  R = 1; ok = q->try_pop(r);
  if (!ok && xslot >= 0) { printf("VIOLATION: no operation is running, one value (X) is stored, try_pop reports empty\n"); bad = 1; }
  else if (ok) { printf("pop -> %d\n", *r); (void)q->try_push(&v[10]); }
  R = 1; (void)q->try_push(&v[20]); R = 1; (void)q->try_push(&v[21]); R = 1; (void)q->try_push(&v[22]);
  show("after pushing 20, 21, 22");
  R = 0; ok = q->try_pop(r);
  printf("values stored, oldest first: 10 20 21 22; k = 2; pop -> %d\n", ok ? *r : -1);
  if (ok && *r != 10 && *r != 20) { printf("VIOLATION: pop returned %d, which is not one of the k = 2 oldest values (10, 20)\n", *r); bad = 1; }
  if (!bad) printf("property holds on this schedule\n");
  return bad;
}
#endif
