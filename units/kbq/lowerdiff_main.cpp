// lowering differential, C++ side of unit kbq: the real private nested struct kirsch_bounded_kfifo_queue<T,...>::marked_idx and the private
// predicates in_valid_region / not_in_valid_region (-fno-access-control) against the natively compiled lowered text.
// Two instantiations of the queue template (the functions must not depend on T / policies).
#define NDEBUG
#include <xenium/kirsch_bounded_kfifo_queue.hpp>
#include <memory>
#include "ld_common.hpp"
extern "C" {
std::uint64_t ld_mi_make(std::uint64_t val, std::uint64_t mark), ld_mi_get(std::uint64_t w), ld_mi_mark(std::uint64_t w), ld_const(int i);
int ld_in_valid_region(std::uint64_t, std::uint64_t, std::uint64_t, std::uint64_t), ld_not_in_valid_region(std::uint64_t, std::uint64_t, std::uint64_t, std::uint64_t);
}
using u64 = std::uint64_t;
static const char* U = "kbq";

template <class Q> static void run(unsigned salt, u64 k, u64 segs) {
  using MI = typename Q::marked_idx;
  static_assert(sizeof(MI) == 8);
  ld::rng g(salt);
  const auto bnd = ld::boundary(64);
  auto raw = [](u64 w) { MI x; x._val = w; return x; };
  {
    auto& r = ld::rep(U, "constants"); r.fixed = true;
    r.check(MI::bits == ld_const(0), "marked_idx::bits real=%u lowered=%" PRIu64, MI::bits, ld_const(0));
    r.check(MI::val_mask == ld_const(1), "marked_idx::val_mask real=%#" PRIx64 " lowered=%#" PRIx64, (u64)MI::val_mask, ld_const(1));
    MI d; r.check(d._val == ld_const(2), "default marked_idx real=%#" PRIx64 " lowered=%#" PRIx64, d._val, ld_const(2));
  }
  {
    auto& r = ld::rep(U, "marked_idx.ctor");
    auto one = [&](u64 v, u64 m) { MI x(v, m); u64 b = ld_mi_make(v, m); r.check(x._val == b, "val=%#" PRIx64 " mark=%#" PRIx64 " real=%#" PRIx64 " lowered=%#" PRIx64, v, m, x._val, b); };
    for (u64 v : bnd) for (u64 m : bnd) one(v, m);
    for (u64 i = 0; i < ld::N_RANDOM; ++i) one(g.below(2) ? g.val(32) : g.val(), g.val());
  }
  {
    auto &rg = ld::rep(U, "marked_idx.get"), &rm = ld::rep(U, "marked_idx.mark");
    auto one = [&](u64 w) { MI x = raw(w);
      { u64 a = x.get(), b = ld_mi_get(w); rg.check(a == b, "word=%#" PRIx64 " real=%#" PRIx64 " lowered=%#" PRIx64, w, a, b); }
      { u64 a = x.mark(), b = ld_mi_mark(w); rm.check(a == b, "word=%#" PRIx64 " real=%#" PRIx64 " lowered=%#" PRIx64, w, a, b); } };
    for (u64 w : bnd) one(w);
    for (u64 i = 0; i < ld::N_RANDOM; ++i) one(g.val());
  }
  {
    Q q(k, segs);
    auto &ri = ld::rep(U, "in_valid_region"), &rn = ld::rep(U, "not_in_valid_region");
    auto one = [&](u64 to, u64 t, u64 h) { u64 fill = g.next();
      { bool a = q.in_valid_region(to, t, h); int b = ld_in_valid_region(to, t, h, fill);
        ri.check(a == (b != 0), "tail_old=%#" PRIx64 " tail=%#" PRIx64 " head=%#" PRIx64 " real=%d lowered=%d", to, t, h, (int)a, b); }
      { bool a = q.not_in_valid_region(to, t, h); int b = ld_not_in_valid_region(to, t, h, fill);
        rn.check(a == (b != 0), "tail_old=%#" PRIx64 " tail=%#" PRIx64 " head=%#" PRIx64 " real=%d lowered=%d", to, t, h, (int)a, b); } };
    // boundary: every ordering / equality pattern of three boundary values (reduced set crossed three times)
    std::vector<u64> sm{0, 1, 2, 3, 4, 5, 7, 8, 9, 0xffffffffull - 1, 0xffffffffull, 0x100000000ull, 0x100000001ull, (1ull << 63) - 1, 1ull << 63, (1ull << 63) + 1, ~0ull - 1, ~0ull};
    for (u64 a : sm) for (u64 b : sm) for (u64 c : sm) one(a, b, c);
    for (u64 a : bnd) { one(a, a, a); one(a, a + 1, a); one(a, a, a + 1); one(a + 1, a, a); one(a - 1, a, a + 1); one(a + 1, a, a - 1); one(a, a + 1, a - 1); }
    for (u64 i = 0; i < ld::N_RANDOM; ++i) {
      // close together (the interesting orderings) or anywhere
      u64 base = g.val(), to, t, h;
      if (g.below(3)) { u64 w = 1 + g.below(g.below(2) ? 4 : 64); to = base + g.below(w); t = base + g.below(w); h = base + g.below(w); }
      else { to = g.val(); t = g.val(); h = g.val(); }
      one(to, t, h);
    }
  }
}

int main() {
  run<xenium::kirsch_bounded_kfifo_queue<int*>>(60, 1, 2);
  run<xenium::kirsch_bounded_kfifo_queue<std::unique_ptr<long>, xenium::policy::padding_bytes<0>>>(61, 3, 4);
  return ld::result();
}
