// schedule replay for kbq.push.commit (no inputs): runs the two hook schedules of native_f12.cpp (F12: not_in_valid_region) and native_commit_order.cpp
// (F12b: load order in committed) on the real kirsch_bounded_kfifo_queue.   exit 0 both hold, 1 one of them violated, 2 hooks missing
#define MPOETER_XENIUM_VERIF 1
#include <xenium/kirsch_bounded_kfifo_queue.hpp>
#include <cstdio>
#include <cstring>
namespace f12 {
#include "native_f12.cpp"
}
namespace order {
#include "native_commit_order.cpp"
}
int main() {
  printf("--- schedule 1 (F12) ---\n"); int a = f12::main();
  printf("--- schedule 2 (load order in committed) ---\n"); int b = order::main();
  if (a == 1 || b == 1) return 1;
  return (a == 2 || b == 2) ? 2 : 0;
}
