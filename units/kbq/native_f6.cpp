// F6 (C06): kirsch_bounded_kfifo_queue::marked_idx keeps the slot index in `bits` (16) low bits of the head/tail word, but the constructor
// accepts any k * num_segments.  With more than 2^16 slots the index written by "advance tail by k" is truncated/ORed into the tag, so tail
// never reaches the slot it should: try_push livelocks although the queue is nearly empty.  Also: a product that overflows 64 bits is accepted.
// build: g++ -std=c++17 -O1 -fno-access-control -I <repo> native_f6.cpp -o native_f6 -pthread ; exit 0 = property holds, 1 = violated
#include <xenium/kirsch_bounded_kfifo_queue.hpp>
#include <csignal>
#include <cstdio>
#include <cstdlib>
#include <stdexcept>
#include <unistd.h>
#include <vector>
static volatile unsigned long g_n = 0;
static void on_alarm(int) {
  char buf[160];
  int l = snprintf(buf, sizeof buf, "VIOLATION: try_push number %lu (queue holds %lu of >= 65539 possible values, k=1, 65540 segments) did not return within 5 s: livelock\n", g_n + 1, g_n);
  (void)!write(1, buf, l);
  _exit(1);
}
int main() {
  int bad = 0; setvbuf(stdout, nullptr, _IONBF, 0);
  // (b) product overflow: k >= 1, num_segments >= 1 accepted with _queue_size == 0
  try {
    xenium::kirsch_bounded_kfifo_queue<int*> q(std::uint64_t(1) << 63, 2);
    if (q._queue_size == 0) { printf("VIOLATION: constructor accepted k=2^63, num_segments=2 and built a queue with _queue_size == %lu (k*num_segments wrapped); any try_push divides by zero\n", (unsigned long)q._queue_size); bad = 1; }
  } catch (const std::exception& e) { printf("k=2^63, num_segments=2 rejected: %s\n", e.what()); }
  // (a) more slots than the index field can address
  const unsigned long segs = 65540;
  try {
    xenium::kirsch_bounded_kfifo_queue<int*> q(1, segs);
    std::vector<int> v(segs);
    signal(SIGALRM, on_alarm);
    for (g_n = 0; g_n < segs - 1; g_n = g_n + 1) {
      alarm(5);
      if (!q.try_push(&v[g_n])) { printf("VIOLATION: push %lu rejected with %lu values stored (< (S-1)*k+1 = %lu)\n", g_n + 1, g_n, segs - 1 + 0); return 1; }
    }
    alarm(0);
    printf("pushed %lu values into k=1, %lu segments\n", g_n, segs);
    int* r; unsigned long expect = 0;
    while (q.try_pop(r)) { if (r != &v[expect]) { printf("VIOLATION: pop %lu returned the wrong value\n", expect); return 1; } expect++; }
    if (expect != segs - 1) { printf("VIOLATION: popped %lu of %lu\n", expect, segs - 1); return 1; }
    printf("popped all %lu values in FIFO order (k=1)\n", expect);
  } catch (const std::exception& e) { printf("k=1, num_segments=%lu rejected by the constructor: %s\n", segs, e.what()); }
  // a size that every version must support
  { xenium::kirsch_bounded_kfifo_queue<int*> q(4, 16384); int x; int* r; if (!q.try_push(&x) || !q.try_pop(r) || r != &x) { printf("VIOLATION: 65536 slots do not work\n"); bad = 1; } }
  return bad;
}
