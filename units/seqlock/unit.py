F = 'xenium/seqlock.hpp'
CLS = r'seqlock<T, Policies\.\.\.>::'
ATOMIC_PTR = {'const std::atomic<copy_t>*': 'const copy_t*', 'std::atomic<copy_t>*': 'copy_t*'}

def _load(**kw):
    d = dict(file=F, sig=r'T ' + CLS + r'load\(\) const',
             members=['_seq', '_data'],
             self_calls={'read_data': 'SL_READ_DATA', 'is_write_pending': 'sl_is_write_pending'},
             subst=[(r'\bread_data\(\s*(\w+)\s*,\s*([^;]+)\);', r'read_data(&\1, &\2);', 'by_ref')],
             must_fire={'A_LOAD': 3, 'self_call:read_data': 1, 'self_call:is_write_pending': 1, 'subst:by_ref': 1, 'member:_data': 1})
    d.update(kw); return d

def _acquire(**kw):
    d = dict(file=F, sig=r'auto ' + CLS + r'acquire_lock\(\) -> sequence_t',
             members=['_seq'], self_calls={'is_write_pending': 'sl_is_write_pending'},
             must_fire={'A_LOAD': 2, 'A_CASW': 1, 'self_call:is_write_pending': 2})
    d.update(kw); return d

UNIT = dict(
  title='seqlock: word-wise copy, slot arithmetic, lock parity, reader validation (C14)',
  properties=['C14'],
  drops='templates: T is a struct of XV_W bytes with alignment XV_A (so sizeof(T)/alignof(T) in the extracted text evaluate to the shape), '
        'slots is the shape XV_S with the declared type read from the header; storage_t is rebuilt from the two template arguments of '
        'std::aligned_storage read from the header; std::atomic<copy_t> viewed through reinterpret_cast becomes a plain copy_t cell; '
        'by-reference parameters become pointers; the update functor is a stub that records the value it was applied to and produces an arbitrary new value; '
        'load\'s call of read_data goes through a recording wrapper (SL_READ_DATA) that calls the real lowered read_data',
  assumptions=[
    'no wrap of _seq (fewer than 2^62 writes in the life of a seqlock); for slot counts that are not powers of two the slot sequence is not continuous across the 2^64 wrap',
    'the seqlock object is aligned to alignof(std::atomic<uintptr_t>) = 8 and _data follows _seq at offset max(8, alignof(storage_t))',
    'reader rely (INT runs): _seq only increases; a slot changes only while _seq is an odd value 2j+1 and the slot is ((j+1) mod slots) - proved as the guarantee of store/update (sl.writer.guarantee) plus writer mutual exclusion (sl.lock.acquire)',
    'writer rely: while _seq holds the odd value installed by this thread\'s CAS nobody else writes _seq or _data (same guarantee, applied to the other writers)',
    'weak memory: sequentially consistent model; the fences/orders that the numbered comments (1)-(7) rely on are checked as present (sl.load.sync, sl.store.sync)',
    'update functor does not throw and does not touch the seqlock (documented precondition)',
  ],
  consts=[
    dict(name='XV_COPY_T', file=F, regex=r'using copy_t = ([^;]+);'),
    dict(name='XV_SEQUENCE_T', file=F, regex=r'using sequence_t = ([^;]+);'),
    dict(name='XV_SLOTS_T', file=F, regex=r'static constexpr (\w+) slots ='),
    dict(name='XV_STORAGE_SIZE', file=F, regex=r'using storage_t = typename std::aligned_storage<([^,;]+),[^;]+>::type;'),
    dict(name='XV_STORAGE_ALIGN', file=F, regex=r'using storage_t = typename std::aligned_storage<[^,;]+,\s*([^;]+)>::type;', subst=[(r'\balignof\b', '_Alignof')]),
  ],
  sources=[
    dict(id='is_write_pending', file=F, sig=r'bool is_write_pending\(sequence_t seq\) const',
         c_sig='static _Bool sl_is_write_pending(const struct seqlock* self, sequence_t seq)', must_fire={}),
    dict(id='read_data', file=F, sig=r'void ' + CLS + r'read_data\(T& dest, const storage_t& src\) const',
         c_sig='static void sl_read_data(const struct seqlock* self, T* dest_p, const storage_t* src_p)',
         types=ATOMIC_PTR, subst=[(r'\bdest\b', '(*dest_p)', 'dest_ref'), (r'\bsrc\b', '(*src_p)', 'src_ref'), (r'\bstd::memcpy\b', 'memcpy', 'memcpy')],
         must_fire={'A_LOAD': 1, 'cast': 2, 'memory_order': 2}),
    dict(id='store_data', file=F, sig=r'void ' + CLS + r'store_data\(const T& src, storage_t& dest\)',
         c_sig='static void sl_store_data(struct seqlock* self, const T* src_p, storage_t* dest_p)',
         types=ATOMIC_PTR, subst=[(r'\bdest\b', '(*dest_p)', 'dest_ref'), (r'\bsrc\b', '(*src_p)', 'src_ref'), (r'\bstd::memcpy\b', 'memcpy', 'memcpy')],
         must_fire={'A_STORE': 1, 'cast': 2, 'memory_order': 2}),
    _acquire(id='acquire_lock', c_sig='static sequence_t sl_acquire_lock(struct seqlock* self)'),
    _acquire(id='acquire_lock_cut', c_sig='static sequence_t sl_acquire_lock_cut(struct seqlock* self)', cut_loops={0: 'ACQ', 1: 'ACQW'},
             must_fire={'A_LOAD': 2, 'A_CASW': 1, 'self_call:is_write_pending': 2, 'cut_loop': 2}),
    dict(id='release_lock', file=F, sig=r'void ' + CLS + r'release_lock\(sequence_t seq\)',
         c_sig='static void sl_release_lock(struct seqlock* self, sequence_t seq)',
         members=['_seq'], self_calls={'is_write_pending': 'sl_is_write_pending'},
         must_fire={'A_STORE': 1, 'memory_order': 2}),
    _load(id='load', c_sig='static T sl_load(const struct seqlock* self)'),
    _load(id='load_cut', c_sig='static T sl_load_cut(const struct seqlock* self)', cut_loops={0: 'LOAD', 1: 'WAIT'},
          must_fire={'A_LOAD': 3, 'self_call:read_data': 1, 'self_call:is_write_pending': 1, 'subst:by_ref': 1, 'member:_data': 1, 'cut_loop': 2}),
    dict(id='store', file=F, sig=r'void ' + CLS + r'store\(const T& value\)',
         c_sig='static void sl_store(struct seqlock* self, const T* value_p)',
         members=['_data'], self_calls={'acquire_lock': 'sl_acquire_lock', 'release_lock': 'sl_release_lock', 'store_data': 'sl_store_data'},
         subst=[(r'\bstore_data\(\s*(\w+)\s*,\s*([^;]+)\);', r'store_data(&\1, &\2);', 'by_ref'), (r'\bvalue\b', '(*value_p)', 'value_ref')],
         must_fire={'self_call:acquire_lock': 1, 'self_call:release_lock': 1, 'self_call:store_data': 1, 'subst:by_ref': 1, 'member:_data': 1}),
    dict(id='update', file=F, sig=r'void ' + CLS + r'update\(Func func\)',
         c_sig='static void sl_update(struct seqlock* self, int func)',
         members=['_data'], self_calls={'acquire_lock': 'sl_acquire_lock', 'release_lock': 'sl_release_lock', 'store_data': 'sl_store_data', 'read_data': 'sl_read_data'},
         subst=[(r'\b(store_data|read_data)\(\s*(\w+)\s*,\s*([^;]+)\);', r'\1(&\2, &\3);', 'by_ref'), (r'\bfunc\((\w+)\);', r'XV_FUNCTOR(func, &\1);', 'functor')],
         must_fire={'self_call:acquire_lock': 1, 'self_call:release_lock': 1, 'self_call:store_data': 1, 'self_call:read_data': 1, 'subst:by_ref': 2,
                    'subst:functor': 1, 'member:_data': 2}),
  ],
  runs=[],
  obligations={},
  canaries=[],
)
