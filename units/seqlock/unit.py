F = 'xenium/seqlock.hpp'
CLS = r'seqlock<T, Policies\.\.\.>::'
ATOMIC_PTR = {'const std::atomic<copy_t>*': 'const copy_t*', 'std::atomic<copy_t>*': 'copy_t*'}

def _load(**kw):
    d = dict(file=F, sig=r'T ' + CLS + r'load\(\) const',
             members=['_seq', '_data'],
             self_calls={'read_data': 'SL_READ_DATA', 'is_write_pending': 'sl_is_write_pending'},
             subst=[(r'\bread_data\(\s*(\w+)\s*,\s*([^;]+)\);', r'read_data(&\1, &\2);', 'by_ref')],
             must_fire={'A_LOAD': 3, 'self_call:read_data': 1, 'self_call:is_write_pending': 1, 'subst:by_ref': 1, 'member:_data': 1})
    d.update(kw); return d

def _acquire(**kw):
    d = dict(file=F, sig=r'auto ' + CLS + r'acquire_lock\(\) -> sequence_t',
             members=['_seq'], self_calls={'is_write_pending': 'sl_is_write_pending'},
             must_fire={'A_LOAD': 2, 'A_CASW': 1, 'self_call:is_write_pending': 2})
    d.update(kw); return d

def _nat(w):
    return 8 if w % 8 == 0 else 4 if w % 4 == 0 else 2 if w % 2 == 0 else 1
def _uw(w):   # copy loops: one word per iteration, ceil(W/8) words at most (+ exit test)
    n = (w + 7) // 8 + 2   # one spare iteration, so that an over-run is reported by sl.copy.in_bounds and not only by the unwinding assertion
    return ['sl_read_data.0:%d' % n, 'sl_store_data.1:%d' % n]
SEQ_UW = ['sl_acquire_lock.0:1', 'sl_acquire_lock.1:2', 'sl_load.0:1', 'sl_load.1:2']
def _run(kind, entry, w, a, s, tiers, mode='SEQ', cls='shape-complete', extra=(), **kw):
    return dict(id='%s_w%da%ds%d' % (kind, w, a, s), entry=entry, tiers=tiers, mode=mode, cls=cls,
                defs={'XV_W': w, 'XV_A': a, 'XV_S': s}, unwindset=_uw(w) + list(extra), **kw)
RUNS = []
Q = ['quick', 'thorough']; TH = ['thorough']
QUICK_COPY = [(12, 4, 2), (16, 8, 2), (16, 4, 3), (20, 4, 3), (24, 8, 1), (33, 1, 2), (64, 8, 8)]
for (w, a, s) in QUICK_COPY: RUNS.append(_run('copy', 'h_copy', w, a, s, Q))
for w in range(9, 65):
    for a in sorted(set([1, _nat(w)])):
        for s in (1, 3):
            if (w, a, s) not in QUICK_COPY: RUNS.append(_run('copy', 'h_copy', w, a, s, TH))
RUNS.append(_run('lock', 'h_lock', 16, 8, 2, Q, extra=SEQ_UW, cls='unbounded'))
for s in (1, 2, 3, 4, 8):
    RUNS.append(_run('store_load', 'h_store_load', 16, 8, s, Q, extra=SEQ_UW))
    RUNS.append(_run('update', 'h_update', 16, 8, s, Q, extra=SEQ_UW))
    RUNS.append(_run('slots', 'h_slots', 16, 8, s, Q, extra=SEQ_UW))
    RUNS.append(_run('load_int', 'h_load_int', 16, 8, s, Q, mode='INT', note='retry loop and wait loop cut by invariant; all 64-bit _seq below the no-wrap bound'))
    if s > 1:
        RUNS.append(_run('load_solo', 'h_load_solo', 16, 8, s, Q, mode='SOLO', extra=['sl_load.0:1', 'sl_load.1:3'], unwind_obligation='sl.load.terminates'))
for s in (1, 2, 3, 4, 8):
    RUNS.append(_run('mod_lemma', 'h_mod_lemma', 16, 8, s, Q))
RUNS.append(_run('acquire_int', 'h_acquire_int', 16, 8, 2, Q, mode='INT', cls='unbounded'))
for (w, a, s) in [(16, 8, 1), (12, 4, 2), (33, 1, 3)]: RUNS.append(_run('ctor', 'h_ctor', w, a, s, Q, extra=SEQ_UW))
for (w, a, s) in [(24, 8, 2), (24, 8, 3), (64, 8, 2), (12, 4, 2), (20, 4, 3), (33, 1, 3)]:
    t = Q if (w, s) == (24, 2) else TH
    RUNS.append(_run('store_load', 'h_store_load', w, a, s, t, extra=SEQ_UW))
    RUNS.append(_run('update', 'h_update', w, a, s, t, extra=SEQ_UW))
    RUNS.append(_run('load_int', 'h_load_int', w, a, s, t, mode='INT'))

UNIT = dict(
  title='seqlock: word-wise copy, slot arithmetic, lock parity, reader validation (C14)',
  properties=['C14'],
  drops='templates: T is a struct of XV_W bytes with alignment XV_A (so sizeof(T)/alignof(T) in the extracted text evaluate to the shape), '
        'slots is the shape XV_S with the declared type read from the header; storage_t, copy_t, sequence_t are rebuilt (sl_types.h, included into lowered.h through '
        'the c_sig of the first source) from the constant expressions read from the header (both template arguments of std::aligned_storage); '
        'std::atomic<copy_t> viewed through reinterpret_cast becomes a plain copy_t cell; by-reference parameters become pointers; '
        'the update functor is a stub that records the value it was applied to and produces an arbitrary new value; '
        'the calls of read_data/store_data inside load/store/update go through recording wrappers (SL_READ_DATA/SL_STORE_DATA) that call the real lowered '
        'functions once per possible slot (case split, constant slot address in each branch); '
        'XV_A_LOAD is re-#defined in harness.c to the same sequence with the value routed through an identity function (cbmc 6.11 encoding defect, see comment there); '
        'outside h_copy an obligation, once asserted, is assumed for the obligations that follow it in the same harness (it is reported on its own when it fails)',
  assumptions=[
    'no wrap of _seq: all harnesses range over every 64-bit value of _seq except the last 16 before the wrap (for slot counts that are not powers of two the slot sequence is not continuous across the 2^64 wrap: after 2^63 writes one load would return a stale slot)',
    'the seqlock object is aligned to alignof(std::atomic<uintptr_t>) = 8 and _data follows _seq at offset max(8, alignof(storage_t))',
    'reader rely (INT runs): R1 _seq only increases; R2 a slot changes only while _seq is an odd value 2j+1 and the slot is ((j+1) mod slots) - proved as the guarantee of store/update (sl.writer.guarantee) plus writer mutual exclusion (sl.lock.acquire). The INT environment is a superset of R1+R2: it protects only the slot a read_data call is in progress on, until _seq has advanced by a full round (sl.env.mod_lemma + sl.slot.reader justify that this covers R2)',
    'writer rely: while _seq holds the odd value installed by this thread\'s CAS nobody else writes _seq or _data (same guarantee, applied to the other writers)',
    'weak memory: sequentially consistent model; the fences/orders that the numbered comments (1)-(7) rely on are checked as present (sl.load.sync, sl.store.sync)',
    'update functor does not throw and does not touch the seqlock (documented precondition)',
  ],
  consts=[
    dict(name='XV_SEQ_INIT', file=F, regex=r'std::atomic<sequence_t> _seq\{([^}]*)\};'),
    dict(name='XV_COPY_T', file=F, regex=r'using copy_t = ([^;]+);'),
    dict(name='XV_SEQUENCE_T', file=F, regex=r'using sequence_t = ([^;]+);'),
    dict(name='XV_SLOTS_T', file=F, regex=r'static constexpr (\w+) slots ='),
    dict(name='XV_STORAGE_SIZE', file=F, regex=r'using storage_t = typename std::aligned_storage<([^,;]+),[^;]+>::type;'),
    dict(name='XV_STORAGE_ALIGN', file=F, regex=r'using storage_t = typename std::aligned_storage<[^,;]+,\s*([^;]+)>::type;', subst=[(r'\balignof\b', '_Alignof')]),
  ],
  sources=[
    dict(id='is_write_pending', file=F, sig=r'bool is_write_pending\(sequence_t seq\) const',
         c_sig='#include "sl_types.h"\nstatic _Bool sl_is_write_pending(const struct seqlock* self, sequence_t seq)', must_fire={}),
    dict(id='read_data', file=F, sig=r'void ' + CLS + r'read_data\(T& dest, const storage_t& src\) const',
         c_sig='static void sl_read_data(const struct seqlock* self, T* dest_p, const storage_t* src_p)',
         types=ATOMIC_PTR, subst=[(r'\bdest\b', '(*dest_p)', 'dest_ref'), (r'\bsrc\b', '(*src_p)', 'src_ref'), (r'\bstd::memcpy\b', 'memcpy', 'memcpy')],
         must_fire={'A_LOAD': 1, 'cast': 2, 'memory_order': 2}),
    dict(id='store_data', file=F, sig=r'void ' + CLS + r'store_data\(const T& src, storage_t& dest\)',
         c_sig='static void sl_store_data(struct seqlock* self, const T* src_p, storage_t* dest_p)',
         types=ATOMIC_PTR, subst=[(r'\bdest\b', '(*dest_p)', 'dest_ref'), (r'\bsrc\b', '(*src_p)', 'src_ref'), (r'\bstd::memcpy\b', 'memcpy', 'memcpy')],
         must_fire={'A_STORE': 1, 'cast': 2, 'memory_order': 2}),
    _acquire(id='acquire_lock', c_sig='static sequence_t sl_acquire_lock(struct seqlock* self)'),
    _acquire(id='acquire_lock_cut', c_sig='static sequence_t sl_acquire_lock_cut(struct seqlock* self)', cut_loops={0: 'ACQ', 1: 'ACQW'},
             must_fire={'A_LOAD': 2, 'A_CASW': 1, 'self_call:is_write_pending': 2, 'cut_loop': 2}),
    dict(id='release_lock', file=F, sig=r'void ' + CLS + r'release_lock\(sequence_t seq\)',
         c_sig='static void sl_release_lock(struct seqlock* self, sequence_t seq)',
         members=['_seq'], self_calls={'is_write_pending': 'sl_is_write_pending'},
         must_fire={'A_STORE': 1, 'memory_order': 2}),
    _load(id='load', c_sig='static T sl_load(const struct seqlock* self)'),
    _load(id='load_cut', c_sig='static T sl_load_cut(const struct seqlock* self)', cut_loops={0: 'LOAD', 1: 'WAIT'},
          must_fire={'A_LOAD': 3, 'self_call:read_data': 1, 'self_call:is_write_pending': 1, 'subst:by_ref': 1, 'member:_data': 1, 'cut_loop': 2}),
    dict(id='ctor_copy', file=F, sig=r'explicit seqlock\(const T& data\)', c_sig='static void sl_ctor_copy(struct seqlock* self, const T* data_p)', members=['_data'],
         pre_subst=[(r'new \(&_data\[([^\]]+)\]\) T\(data\);', r'XV_CONSTRUCT_COPY(self, \1, data_p);', 'placement_new')], must_fire={'subst:placement_new': 1}),
    dict(id='store', file=F, sig=r'void ' + CLS + r'store\(const T& value\)',
         c_sig='static void sl_store(struct seqlock* self, const T* value_p)',
         members=['_data'], self_calls={'acquire_lock': 'sl_acquire_lock', 'release_lock': 'sl_release_lock', 'store_data': 'SL_STORE_DATA'},
         subst=[(r'\bstore_data\(\s*(\w+)\s*,\s*([^;]+)\);', r'store_data(&\1, &\2);', 'by_ref'), (r'\bvalue\b', '(*value_p)', 'value_ref')],
         must_fire={'self_call:acquire_lock': 1, 'self_call:release_lock': 1, 'self_call:store_data': 1, 'subst:by_ref': 1, 'member:_data': 1}),
    dict(id='update', file=F, sig=r'void ' + CLS + r'update\(Func func\)',
         c_sig='static void sl_update(struct seqlock* self, int func)',
         members=['_data'], self_calls={'acquire_lock': 'sl_acquire_lock', 'release_lock': 'sl_release_lock', 'store_data': 'SL_STORE_DATA', 'read_data': 'SL_READ_DATA', 'load': 'sl_load'},
         subst=[(r'\b(store_data|read_data)\(\s*(\w+)\s*,\s*([^;]+)\);', r'\1(&\2, &\3);', 'by_ref'), (r'\bfunc\((\w+)\);', r'XV_FUNCTOR(func, &\1);', 'functor')],
         must_fire={'self_call:acquire_lock': 1, 'self_call:release_lock': 1, 'self_call:store_data': 1, 'subst:functor': 1}),
  ],
  runs=RUNS,
  obligations={
    'sl.copy.all_bytes': dict(deciding=True, text='store_data makes every one of the sizeof(T) bytes of the slot equal to the source and touches nothing else (no other slot, not _seq); read_data returns every one of the sizeof(T) bytes of the slot, reading each once, and writes nothing shared'),
    'sl.copy.in_bounds': dict(deciding=True, text='every word access of the copy loops lies inside the storage_t of the slot that was passed in'),
    'sl.copy.aligned': dict(deciding=True, text='every atomic word access of the copy loops is aligned for std::atomic<copy_t> (given the seqlock object is)'),
    'sl.ctor.initial_value': dict(deciding=True, text='seqlock(const T&) constructs its argument in the slot that load() reads for the initial sequence number (read from the member initialiser, even): a load of a freshly constructed seqlock returns the initial value in all sizeof(T) bytes'),
    'sl.update.read_under_lock': dict(deciding=True, text='update takes the snapshot that feeds the functor while holding the lock (after its CAS, before its unlocking store), from slot (seq>>1) mod slots of the sequence value acquire_lock returned, and stores to the next slot under that same value (no lost update between two writers)'),
    'sl.lock.parity': dict(deciding=True, text='acquire_lock turns an even _seq v into v+1 and returns v+1; release_lock(v+1) makes it v+2; a write operation advances _seq by exactly 2 and leaves it even'),
    'sl.lock.acquire': dict(deciding=True, text='[INT] acquire_lock returns only after its own CAS moved _seq from an even value e to e+1, returns e+1, and writes nothing else'),
    'sl.writer.guarantee': dict(deciding=True, text='GUARANTEE of store/update = the readers\' rely: _seq is written only even->+1 by a CAS and odd->+1 by the lock holder; data words are written only by the lock holder while _seq is the odd value 2j+1 it installed, and only inside slot (j+1) mod slots'),
    'sl.slot.writer': dict(deciding=True, text='store/update started at _seq = 2k write slot (k+1) mod slots (update reads slot k mod slots)'),
    'sl.slot.reader': dict(deciding=True, text='load at _seq = 2k or (slots > 1) 2k+1 reads slot k mod slots; after a write it reads the slot the writer filled'),
    'sl.slot.disjoint': dict(deciding=True, text='slots > 1: the slot written under 2k+1 differs from the slot a reader of 2k or 2k+1 reads, for all k'),
    'sl.store_load.roundtrip': dict(deciding=True, text='store(v); load() returns v in all sizeof(T) bytes; store leaves every other slot unchanged; load changes nothing'),
    'sl.update.applies': dict(deciding=True, text='update(f) applies f exactly once, while holding the lock, to the value current at that time, and publishes exactly f\'s result (= store(f(load()))); other slots unchanged'),
    'sl.load.untorn': dict(deciding=True, text='[INT, rely R1-R3] on return all sizeof(T) bytes were read from the slot designated by an observation of _seq made during the call (even if slots == 1), each while the slot still had the version observed then, and are bit-identical to that version'),
    'sl.load.fresh': dict(deciding=True, text='[INT] the version returned is not older than the last store completed before the call'),
    'sl.load.readonly': dict(deciding=True, text='load writes neither _seq nor any slot'),
    'sl.load.sync': dict(deciding=True, text='sync precondition: every load of _seq in load() is acquire-or-stronger and an acquire fence separates the relaxed data loads from the validating load of _seq (comments 1,2,3,6)'),
    'sl.store.sync': dict(deciding=True, text='sync precondition: the lock CAS is acquire-or-stronger, a release fence separates it from the relaxed data stores, the unlocking store is release-or-stronger (comments 4,5,7)'),
    'sl.env.mod_lemma': dict(deciding=False, text='(k + e) mod slots == ((k mod slots) + e) mod slots, hence != k mod slots for 0 < e < slots, for all k below the no-wrap bound: the fact by which the INT environment (which protects the slot being read until _seq has advanced a full round) covers rely R2'),
    'sl.load.terminates': dict(deciding=True, text='[SOLO] slots > 1: load returns within 2 iterations from any state, odd _seq included'),
  },
  loop_obligation={'LOAD': 'sl.load.untorn', 'WAIT': 'sl.load.untorn', 'ACQ': 'sl.lock.acquire', 'ACQW': 'sl.lock.acquire'},
  replays={'sl.copy.all_bytes': dict(src='replay_copy.cpp'), 'sl.store_load.roundtrip': dict(src='replay_copy.cpp'),
           'sl.copy.aligned': dict(src='replay_copy.cpp'), 'sl.copy.in_bounds': dict(src='replay_copy.cpp')},
  canaries=['ctor.done', 'copy.frame_other_slot', 'copy.done', 'copy.tail_byte', 'lock.done', 'store_load.done', 'store_load.frame', 'update.done', 'update.frame',
            'slots.multi', 'slots.done', 'solo.odd', 'solo.even', 'load_int.returned', 'load_int.seq_moved', 'load_int.env_wrote', 'load_int.odd_start',
            'acquire_int.returned', 'acquire_int.env_wrote', 'mod_lemma.reached'],
)
