/* unit seqlock: the class' data layout, rebuilt from the constant expressions xv extracted from xenium/seqlock.hpp
 * (XV_COPY_T, XV_SEQUENCE_T, XV_SLOTS_T, XV_STORAGE_SIZE, XV_STORAGE_ALIGN are #defined at the top of lowered.h).
 * Included from lowered.h through the c_sig of the first source, i.e. after the constants and before the function texts. */
#ifndef SL_TYPES_H
#define SL_TYPES_H
typedef __typeof__(XV_COPY_T 0) copy_t;            /* using copy_t = ...      */
typedef __typeof__(XV_SEQUENCE_T 0) sequence_t;    /* using sequence_t = ...  */
/* std::aligned_storage<Len, Align>::type : Len bytes aligned to Align (sizeof rounds up to Align, as in C++) */
typedef struct { unsigned char b[XV_STORAGE_SIZE]; } __attribute__((aligned(XV_STORAGE_ALIGN))) storage_t;
#define slots (XV_SLOTS_T XV_S)                    /* static constexpr <type> slots = <policy value> */
struct seqlock { sequence_t _seq; storage_t _data[XV_S]; };   /* std::atomic<sequence_t> _seq; storage_t _data[slots]; */

T nondet_T(void); storage_t nondet_storage(void); struct seqlock nondet_seqlock(void);
/* recording wrappers around the real lowered read_data / store_data, and the update functor stub */
static void SL_READ_DATA(const struct seqlock* self, T* dest, const storage_t* src);
static void SL_STORE_DATA(struct seqlock* self, const T* src, storage_t* dest);
static void XV_FUNCTOR(int func, T* value);
#endif
