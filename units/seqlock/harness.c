#define XV_HAVOC_LOAD seq idx seq2 result self _seq
#define XV_HAVOC_WAIT seq self _seq
#define XV_HAVOC_ACQ seq self _seq
#define XV_HAVOC_ACQW seq self _seq
