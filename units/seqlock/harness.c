/* unit seqlock - xenium::seqlock (C14).  Declarations, monitors, environment, invariants and harnesses only;
 * every function body under contract comes from lowered.h (extracted from xenium/seqlock.hpp on this run). */
#include <stdint.h>
#include <stddef.h>
#include <string.h>
#ifndef XV_W
#define XV_W 16      /* sizeof(T) */
#endif
#ifndef XV_A
#define XV_A 8       /* alignof(T) */
#endif
#ifndef XV_S
#define XV_S 2       /* policy::slots */
#endif
/* the element type: XV_W opaque bytes with alignment XV_A, so that sizeof(T) / alignof(T) in the extracted text are the shape */
typedef struct { unsigned char b[XV_W]; } __attribute__((aligned(XV_A))) T;
_Static_assert(sizeof(T) == XV_W, "shape error: W must be a multiple of A");
_Static_assert(XV_W > sizeof(uintptr_t), "seqlock's own static_assert: sizeof(T) > sizeof(uintptr_t)");

static void mon_load(const void* addr, uint64_t v, int o);
static void mon_store(const void* addr, uint64_t v, int o);
static void mon_cas(const void* addr, uint64_t e, uint64_t d, _Bool ok, int o);
static void mon_fence(int o);
#define XV_ON_LOAD(addr, val, order) mon_load((const void*)(addr), (uint64_t)(val), (order))
#define XV_ON_STORE(addr, val, order) mon_store((const void*)(addr), (uint64_t)(val), (order))
#define XV_ON_CAS(addr, e, d, ok, order) mon_cas((const void*)(addr), (uint64_t)(e), (uint64_t)(d), (ok), (order))
#define XV_ON_FENCE(order) mon_fence(order)
#include "xv.h"
int xv_threw; uint64_t xv_clock, xv_rmw_old; _Bool xv_cas_ok;
/* cbmc 6.11 work-around, no change of meaning: the loaded value is routed through an identity function.  With xv.h's direct
 * `(a)` read, two consecutive type-punned word stores `*pdest = *psrc` whose sources are word reads at a symbolic slot offset
 * are encoded wrongly (the first store is lost; reproduced in isolation, also with the z3 back end). */
static uintptr_t xv_pass(uintptr_t x) { return x; }
#undef XV_A_LOAD
#define XV_A_LOAD(a, o) (XV_ENV(), xv_clock++, XV_ON_LOAD(&(a), (a), (o)), xv_pass((a)))
/* an obligation that, once stated, may be used by the obligations that follow it (it is reported on its own if it fails) */
#define OBL(name, cond) { _Bool xv_c_ = (cond); XV_OBL(name, xv_c_); XV_ASSUME(xv_c_); }
#define MAXSEQ (UINT64_MAX - 15)       /* assumption: _seq does not wrap; every other 64-bit value is covered */

struct seqlock; struct seqlock* g_sl;  /* the object under test (monitors and the environment address it through this) */

/* ---- harness inputs (reported to the native replay) ---- */
unsigned in_W, in_A, in_S, in_g, in_slot; uint64_t in_seq0;

/* ---- ghost state ---- */
uint64_t ver[XV_S];                    /* version of a slot's contents: bumped by the environment whenever it modifies the slot */
uint64_t shadow_seq;                   /* value of _seq after the last write to it */
/* last observation (load) of _seq by the thread under test; env_since_obs: an environment step happened after it */
uint64_t obs_v; _Bool obs_valid, env_since_obs;
/* the read_data call in progress / last made: the observation it is based on, the slot it was handed (as computed by the code),
 * snapshot (ghost byte in_g) and version of that slot at entry.  rd_fresh: nothing happened between the observation and the entry,
 * so the snapshot is the slot's contents at the moment _seq was observed.  rd_dirty: the environment wrote the slot after the entry.
 * ref_valid: from the entry until the next observation of _seq the environment refers to (rd_obs_v >> 1, rd_slot) - see xv_env. */
uint64_t rd_obs_v, rd_ver, rd_seq; unsigned char rd_snap; _Bool rd_fresh, rd_dirty, ref_valid, rd_locked; unsigned rd_calls, st_calls;
unsigned cur_slot, rd_slot, st_slot, st_expect; uint64_t st_seq; _Bool st_locked;
/* per-access bookkeeping */
unsigned n_seq_loads, n_data_loads, n_data_stores, n_seq_stores, n_cas, n_cas_ok, g_rd_count, g_wr_count; uint64_t g_rd_ver;
uint64_t cas_ok_clock, unlock_clock, rd_clock, st_clock, fn_clock;
_Bool acc_oob, acc_misaligned, seq_load_weak, fence_missing, pending_data_loads, lock_mine, guar_bad, rel_weak, cas_weak, rel_fence_since, wfence_missing;
/* update functor stub */
unsigned fn_calls; unsigned char fn_in_g, fn_out_g; uint64_t fn_seq; _Bool fn_locked; int fn_id;

static _Bool mon_clean(void) {
  return !seq_load_weak && !fence_missing && !pending_data_loads && !lock_mine && !guar_bad
      && n_data_stores == 0 && n_seq_stores == 0 && n_cas == 0;
}
static void havoc_shared(void);

/* ---- loop invariants (INT runs) ----
 * reader, at the head of the retry loop and of the single-slot wait loop: the local seq is the value of the last observation of
 * _seq, nothing has happened since that observation (the code makes no atomic access between observing _seq and (re-)entering the
 * loop), the observed values never decrease below the value at call time, and this thread has written nothing. */
#define SL_INV_READER (obs_valid && seq == obs_v && obs_v >= in_seq0 && obs_v <= MAXSEQ && g_sl->_seq == obs_v && shadow_seq == obs_v \
   && !env_since_obs && !ref_valid && mon_clean())
#define XV_INV_LOAD SL_INV_READER
#define XV_INV_WAIT SL_INV_READER
#define XV_HAVOC_LOAD result = nondet_T(); havoc_shared(); seq = obs_v /* self: _seq, _data and all ghost state; idx, seq2 are body-local */
#define XV_HAVOC_WAIT result = nondet_T(); havoc_shared(); seq = obs_v /* self: _seq, _data */
/* acquire_lock: nothing written by this thread so far */
#define SL_INV_ACQ (g_sl->_seq <= MAXSEQ && shadow_seq == g_sl->_seq && !lock_mine && !guar_bad && !cas_weak && !ref_valid \
   && n_cas_ok == 0 && n_seq_stores == 0 && n_data_stores == 0)
#define XV_INV_ACQ SL_INV_ACQ
#define XV_INV_ACQW SL_INV_ACQ
#define XV_HAVOC_ACQ seq = nondet_uptr(); havoc_shared() /* self->_seq */
#define XV_HAVOC_ACQW seq = nondet_uptr(); havoc_shared() /* self->_seq */

#ifdef XV_INT
/* Environment = the writers.  RELY: (R1) _seq only increases; (R2) a slot's bytes change only while _seq is an odd value 2j+1 and
 * the slot is (j+1) mod slots; (R3) nothing changes while _seq holds the odd value this thread installed (lock_mine).
 * One environment step summarises any number of writer actions: _seq moves from a to any b >= a and every slot that is the
 * write target of some odd value in [a, b] gets arbitrary contents (and a new version). */
_Bool env_on; unsigned env_writes;
void xv_env(void);
#endif

/* placement-new copy construction of a trivially copyable T into slot idx: all sizeof(T) bytes */
unsigned ctor_count, ctor_slot;
#define XV_CONSTRUCT_COPY(self, idx, src_p) do { ctor_count++; ctor_slot = (unsigned)(idx); for (unsigned xv_i = 0; xv_i < XV_W; xv_i++) (self)->_data[idx].b[xv_i] = (src_p)->b[xv_i]; } while (0)
#include "lowered.h"

/* ---- monitors ---- */
static void mon_data(const void* addr, _Bool is_store) {
  if (!__CPROVER_same_object(addr, g_sl)) { acc_oob = 1; return; }
  long off = (long)__CPROVER_POINTER_OFFSET(addr) - (long)(offsetof(struct seqlock, _data) + (size_t)cur_slot * sizeof(storage_t));
  if (off < 0 || off + (long)sizeof(copy_t) > (long)sizeof(storage_t)) acc_oob = 1;     /* word access leaves the slot's storage_t */
  if (__CPROVER_POINTER_OFFSET(addr) % _Alignof(copy_t) != 0) acc_misaligned = 1;     /* the seqlock object itself is aligned for atomic<uintptr_t> */
  if (off <= (long)in_g && (long)in_g < off + (long)sizeof(copy_t)) {
    if (is_store) g_wr_count++; else { g_rd_count++; g_rd_ver = cur_slot < XV_S ? ver[cur_slot] : 0; }
  }
}
static void mon_load(const void* addr, uint64_t v, int o) {
  if (addr == (const void*)&g_sl->_seq) {
    n_seq_loads++;
    if (!XV_IS_ACQUIRE(o)) seq_load_weak = 1;
    if (pending_data_loads) fence_missing = 1;          /* data words were loaded and no acquire fence separates them from this load of _seq */
    obs_valid = 1; obs_v = v; env_since_obs = 0; ref_valid = 0;
  } else { n_data_loads++; pending_data_loads = 1; mon_data(addr, 0); }
}
static void mon_store(const void* addr, uint64_t v, int o) {
  if (addr == (const void*)&g_sl->_seq) {
    n_seq_stores++;
    if (!(lock_mine && (shadow_seq & 1) && v == shadow_seq + 1)) guar_bad = 1;   /* only the lock holder writes _seq, and only odd -> odd+1 */
    if (!XV_IS_RELEASE(o)) rel_weak = 1;
    lock_mine = 0; shadow_seq = v; unlock_clock = xv_clock;
  } else {
    n_data_stores++;
    /* guarantee: data is written only by the lock holder, while _seq is the odd value 2j+1 it installed, and only into slot (j+1) mod slots */
    if (!(lock_mine && (g_sl->_seq & 1) && g_sl->_seq == shadow_seq && g_sl->_seq == st_seq && cur_slot == st_expect)) guar_bad = 1;
    if (!rel_fence_since) wfence_missing = 1;            /* no release fence between taking the lock and this data store */
    mon_data(addr, 1);
  }
}
static void mon_cas(const void* addr, uint64_t e, uint64_t d, _Bool ok, int o) {
  n_cas++;
  if (addr != (const void*)&g_sl->_seq) guar_bad = 1;
  if (ok) {
    n_cas_ok++;
    if ((e & 1) || d != e + 1 || lock_mine) guar_bad = 1;   /* the lock is taken only from an even value, even -> even+1 */
    if (!XV_IS_ACQUIRE(o)) cas_weak = 1;
    lock_mine = 1; rel_fence_since = 0; shadow_seq = d; cas_ok_clock = xv_clock;
  }
}
static void mon_fence(int o) {
  if (XV_IS_ACQUIRE(o)) pending_data_loads = 0;
  if (XV_IS_RELEASE(o)) rel_fence_since = 1;
}
/* index of the slot a storage_t pointer designates (XV_S if none) */
static unsigned slot_index(const struct seqlock* self, const storage_t* p) {
  unsigned r = XV_S;
  for (unsigned s = 0; s < XV_S; s++) if (p == &self->_data[s]) r = s;
  return r;
}
static void SL_READ_DATA(const struct seqlock* self, T* dest, const storage_t* src) {
  cur_slot = slot_index(self, src); rd_slot = cur_slot; rd_calls++; rd_clock = xv_clock; rd_locked = lock_mine; rd_seq = self->_seq;
  rd_obs_v = obs_v; rd_fresh = obs_valid && !env_since_obs && self->_seq == obs_v;
  rd_snap = cur_slot < XV_S ? self->_data[cur_slot].b[in_g] : 0; rd_ver = cur_slot < XV_S ? ver[cur_slot] : 0;
  rd_dirty = 0; ref_valid = 1; g_rd_count = 0;
  /* case split on the slot (proof technique: inside each branch the callee sees a constant slot address) */
  for (unsigned s = 0; s < XV_S; s++) if (cur_slot == s) sl_read_data(self, dest, &self->_data[s]);
  if (cur_slot >= XV_S) sl_read_data(self, dest, src);
}
static void SL_STORE_DATA(struct seqlock* self, const T* src, storage_t* dest) {
  cur_slot = slot_index(self, dest); st_slot = cur_slot; st_calls++; st_seq = self->_seq; st_expect = (unsigned)(((st_seq >> 1) + 1) % slots); st_clock = xv_clock; st_locked = lock_mine; g_wr_count = 0;
  for (unsigned s = 0; s < XV_S; s++) if (cur_slot == s) sl_store_data(self, src, &self->_data[s]);
  if (cur_slot >= XV_S) sl_store_data(self, src, dest);
}
/* update's functor: records what it was applied to, returns an arbitrary new value */
static void XV_FUNCTOR(int func, T* value) {
  fn_calls++; fn_id = func; fn_in_g = value->b[in_g]; fn_seq = g_sl->_seq; fn_locked = lock_mine; fn_clock = xv_clock;
  *value = nondet_T(); fn_out_g = value->b[in_g];
}

static void reset_monitors(void) {
  n_seq_loads = n_data_loads = n_data_stores = n_seq_stores = n_cas = n_cas_ok = g_rd_count = g_wr_count = 0; rd_calls = st_calls = fn_calls = 0;
  acc_oob = acc_misaligned = seq_load_weak = fence_missing = pending_data_loads = lock_mine = guar_bad = rel_weak = cas_weak = wfence_missing = 0;
  rel_fence_since = 0; obs_valid = 0; env_since_obs = 0; ref_valid = 0; rd_fresh = rd_dirty = rd_locked = st_locked = 0;
}
static void havoc_shared(void) {
  *g_sl = nondet_seqlock(); shadow_seq = g_sl->_seq;
  for (unsigned s = 0; s < XV_S; s++) ver[s] = nondet_u64();
  obs_v = nondet_u64(); obs_valid = nondet_bool(); env_since_obs = nondet_bool();
  rd_obs_v = nondet_u64(); rd_ver = nondet_u64(); rd_seq = nondet_u64(); rd_snap = nondet_uchar();
  rd_fresh = nondet_bool(); rd_dirty = nondet_bool(); ref_valid = nondet_bool(); rd_locked = nondet_bool(); st_locked = nondet_bool();
  rd_calls = nondet_uint(); st_calls = nondet_uint(); cur_slot = nondet_uint(); rd_slot = nondet_uint(); st_slot = nondet_uint(); st_expect = nondet_uint(); st_seq = nondet_u64();
  n_seq_loads = nondet_uint(); n_data_loads = nondet_uint(); n_data_stores = nondet_uint(); n_seq_stores = nondet_uint(); n_cas = nondet_uint(); n_cas_ok = nondet_uint();
  g_rd_count = nondet_uint(); g_wr_count = nondet_uint(); g_rd_ver = nondet_u64();
  seq_load_weak = nondet_bool(); fence_missing = nondet_bool(); pending_data_loads = nondet_bool(); lock_mine = nondet_bool(); guar_bad = nondet_bool();
  rel_weak = nondet_bool(); cas_weak = nondet_bool(); rel_fence_since = nondet_bool(); wfence_missing = nondet_bool();
  xv_clock = nondet_u64(); XV_ASSUME(xv_clock < ((uint64_t)1 << 62));   /* the ghost event clock does not wrap */
  cas_ok_clock = nondet_u64(); unlock_clock = nondet_u64(); rd_clock = nondet_u64(); st_clock = nondet_u64(); fn_clock = nondet_u64();
#ifdef XV_INT
  env_writes = nondet_uint();
#endif
}
static void init_inputs(void) {
  in_W = XV_W; in_A = XV_A; in_S = XV_S; in_g = nondet_uint(); XV_ASSUME(in_g < XV_W);
}

#ifdef XV_INT
static void env_write(unsigned s) {       /* s is a constant at every call site */
  g_sl->_data[s] = nondet_storage(); ver[s]++; env_writes++;
  if (ref_valid && s == rd_slot) rd_dirty = 1;
}
void xv_env(void) {
  if (!env_on || lock_mine) return;                 /* R3 */
  env_since_obs = 1;
  uint64_t a = g_sl->_seq, b = nondet_u64();
  XV_ASSUME(b >= a && b <= MAXSEQ);                 /* R1 */
  /* R2: the write targets of the odd values 2j+1 in [a, b] are the slots t mod slots for t = j+1 in [lo, hi].
   * While a read_data call is in progress on slot rd_slot = k mod slots, k = rd_obs_v >> 1 (obligation sl.slot.reader, checked for every
   * 64-bit value in this run), we have lo > k, and a t in [lo, hi] with t mod slots == k mod slots exists only if hi >= k + slots
   * (sl.env.mod_lemma: (k + e) mod slots != k mod slots for 0 < e < slots).  So R2 allows that slot to change only if hi - k >= slots.
   * Every other slot - and every slot when there is nothing to refer to - is given arbitrary contents whenever any odd value lies in
   * [a, b]: a superset of what R2 allows. */
  uint64_t lo = (a >> 1) + 1, hi = (b + 1) >> 1, k = rd_obs_v >> 1;
  if (hi >= lo) {
    _Bool protect = ref_valid && a >= rd_obs_v && rd_slot < XV_S && hi - k < XV_S;
    for (unsigned s = 0; s < XV_S; s++) if (!(protect && s == rd_slot)) env_write(s);
  }
  g_sl->_seq = b; shadow_seq = b;
}
#endif

/* the arithmetic fact the environment's formulation of R2 rests on (and update's (idx + 1) % slots) */
void h_mod_lemma(void) {
  uint64_t k = nondet_u64(); unsigned e = nondet_uint();
  XV_ASSUME(k <= MAXSEQ && e < XV_S);
  XV_OBL("sl.env.mod_lemma", (k + e) % slots == (unsigned)((k % slots) + e) % XV_S);
  XV_OBL("sl.env.mod_lemma", e == 0 || (k + e) % slots != k % slots);
  XV_CANARY("mod_lemma.reached");
}

/* =================== SEQ: the copy loops =================== */
void h_copy(void) {   /* plain XV_OBL here (no assert-then-assume chain): the obligations are independent and each is to be reported */
  struct seqlock sl; g_sl = &sl; havoc_shared(); reset_monitors(); init_inputs();
  in_slot = nondet_uint(); XV_ASSUME(in_slot < XV_S);
  unsigned gs = nondet_uint(), gb = nondet_uint(); XV_ASSUME(gs < XV_S && gb < sizeof(storage_t));     /* frame: an arbitrary byte of an arbitrary slot */
  T src = nondet_T(); sequence_t seq0 = sl._seq; unsigned char old_frame = sl._data[gs].b[gb];
  cur_slot = in_slot; lock_mine = 1;
  for (unsigned s = 0; s < XV_S; s++) if (in_slot == s) sl_store_data(&sl, &src, &sl._data[s]);      /* case split: constant slot address in each branch */
  XV_OBL("sl.copy.all_bytes", sl._data[in_slot].b[in_g] == src.b[in_g]);
  XV_OBL("sl.copy.all_bytes", g_wr_count == 1);
  XV_OBL("sl.copy.all_bytes", sl._seq == seq0 && (gs == in_slot || sl._data[gs].b[gb] == old_frame));
  XV_OBL("sl.copy.in_bounds", !acc_oob);
  XV_OBL("sl.copy.aligned", !acc_misaligned);
  XV_OBL("sl.store.sync", !wfence_missing && n_data_stores >= 1);
#if XV_S > 1
  if (gs != in_slot) XV_CANARY("copy.frame_other_slot");
#endif
  /* read it back */
  unsigned char cur_g = sl._data[in_slot].b[in_g], cur_frame = sl._data[gs].b[gb];
  T dest = nondet_T(); g_rd_count = 0;
  for (unsigned s = 0; s < XV_S; s++) if (in_slot == s) sl_read_data(&sl, &dest, &sl._data[s]);
  XV_OBL("sl.copy.all_bytes", dest.b[in_g] == cur_g);
  XV_OBL("sl.copy.all_bytes", g_rd_count == 1);
  XV_OBL("sl.copy.all_bytes", sl._seq == seq0 && sl._data[gs].b[gb] == cur_frame && sl._data[in_slot].b[in_g] == cur_g);
  XV_OBL("sl.copy.in_bounds", !acc_oob);
  XV_OBL("sl.copy.aligned", !acc_misaligned);
  XV_OBL("sl.load.sync", !pending_data_loads && n_data_loads >= 1);
  XV_CANARY("copy.done");
#if XV_W % 8
  if (in_g >= (XV_W / 8) * 8) XV_CANARY("copy.tail_byte");       /* a byte beyond the last whole word */
#endif
}

/* =================== SEQ: lock parity =================== */
void h_lock(void) {
  struct seqlock sl; g_sl = &sl; havoc_shared(); reset_monitors(); init_inputs();
  XV_ASSUME(sl._seq <= MAXSEQ && !(sl._seq & 1));
  unsigned gs = nondet_uint(); XV_ASSUME(gs < XV_S);
  sequence_t v = sl._seq; unsigned char old = sl._data[gs].b[in_g];
  sequence_t r = sl_acquire_lock(&sl);
  OBL("sl.lock.parity", r == v + 1 && sl._seq == v + 1 && lock_mine && n_cas_ok == 1 && n_seq_stores == 0)
  OBL("sl.store.sync", !cas_weak)
  sl_release_lock(&sl, r);
  OBL("sl.lock.parity", sl._seq == v + 2 && !lock_mine && n_seq_stores == 1 && n_cas_ok == 1)
  OBL("sl.lock.parity", n_data_stores == 0 && sl._data[gs].b[in_g] == old)
  OBL("sl.writer.guarantee", !guar_bad)
  OBL("sl.store.sync", !rel_weak)
  XV_CANARY("lock.done");
}

/* =================== SEQ: store; load =================== */
void h_store_load(void) {
  struct seqlock sl; g_sl = &sl; havoc_shared(); reset_monitors(); init_inputs();
  XV_ASSUME(sl._seq <= MAXSEQ && !(sl._seq & 1));            /* quiescent */
  unsigned gs = nondet_uint(); XV_ASSUME(gs < XV_S);
  in_seq0 = sl._seq; sequence_t k = sl._seq >> 1; unsigned tgt = (unsigned)((k + 1) % XV_S);
  T v = nondet_T(); unsigned char old = sl._data[gs].b[in_g];
  sl_store(&sl, &v);
  OBL("sl.lock.parity", sl._seq == in_seq0 + 2 && !lock_mine && n_cas_ok == 1 && n_seq_stores == 1)
  OBL("sl.slot.writer", st_calls == 1 && st_slot == tgt && st_seq == in_seq0 + 1)
  OBL("sl.store_load.roundtrip", sl._data[tgt].b[in_g] == v.b[in_g])
  OBL("sl.store_load.roundtrip", gs == tgt || sl._data[gs].b[in_g] == old)          /* frame: the other slots are untouched */
  OBL("sl.writer.guarantee", !guar_bad && !acc_oob)
  OBL("sl.store.sync", !wfence_missing && !rel_weak && !cas_weak)
  unsigned n_st = n_data_stores; unsigned char frame2 = sl._data[gs].b[in_g];
  seq_load_weak = 0;                    /* acquire_lock's relaxed loads of _seq are fine; from here on load() is observed */
  T r = sl_load(&sl);
  OBL("sl.store_load.roundtrip", r.b[in_g] == v.b[in_g])
  OBL("sl.store_load.roundtrip", sl._seq == in_seq0 + 2 && sl._data[gs].b[in_g] == frame2 && n_data_stores == n_st && n_seq_stores == 1 && n_cas == 1)
  OBL("sl.slot.reader", rd_calls == 1 && rd_slot == tgt)     /* the reader's slot after the write is the slot the writer filled */
  OBL("sl.load.sync", !seq_load_weak && !fence_missing && !pending_data_loads)
  XV_CANARY("store_load.done");
#if XV_S > 1
  if (gs != tgt) XV_CANARY("store_load.frame");
#endif
}

/* =================== SEQ: constructor; load =================== */
void h_ctor(void) {
  struct seqlock sl; g_sl = &sl; havoc_shared(); reset_monitors(); init_inputs();
  sl._seq = (sequence_t)(XV_SEQ_INIT);                       /* default member initialiser of _seq, extracted */
  T v = nondet_T(); ctor_count = 0; ctor_slot = XV_S;
  sl_ctor_copy(&sl, &v);
  OBL("sl.ctor.initial_value", ctor_count == 1 && sl._seq == (sequence_t)(XV_SEQ_INIT) && !(sl._seq & 1) && ctor_slot == (unsigned)((sl._seq >> 1) % XV_S))
  seq_load_weak = 0;
  T r = sl_load(&sl);
  OBL("sl.ctor.initial_value", r.b[in_g] == v.b[in_g] && rd_calls == 1 && rd_slot == ctor_slot)
  XV_CANARY("ctor.done");
}

/* =================== SEQ: update =================== */
void h_update(void) {
  struct seqlock sl; g_sl = &sl; havoc_shared(); reset_monitors(); init_inputs();
  XV_ASSUME(sl._seq <= MAXSEQ && !(sl._seq & 1));
  unsigned gs = nondet_uint(); XV_ASSUME(gs < XV_S);
  in_seq0 = sl._seq; sequence_t k = sl._seq >> 1; unsigned cur = (unsigned)(k % XV_S), tgt = (unsigned)((k + 1) % XV_S);
  unsigned char old_cur = sl._data[cur].b[in_g], old = sl._data[gs].b[in_g]; int f = nondet_int();
  sl_update(&sl, f);
  OBL("sl.update.applies", fn_calls == 1 && fn_id == f && fn_in_g == old_cur)      /* applied once, to the current value */
  OBL("sl.update.applies", fn_locked && fn_seq == in_seq0 + 1)                      /* ... while holding the lock */
  OBL("sl.update.applies", sl._data[tgt].b[in_g] == fn_out_g)                       /* its result is what gets published */
  OBL("sl.update.applies", gs == tgt || sl._data[gs].b[in_g] == old)
  OBL("sl.lock.parity", sl._seq == in_seq0 + 2 && !lock_mine && n_cas_ok == 1 && n_seq_stores == 1)
  OBL("sl.slot.writer", st_calls == 1 && st_slot == tgt && rd_calls == 1 && rd_slot == cur)
  /* the snapshot that feeds the functor is taken under the lock: after the CAS, before the unlocking store, from the slot designated by
   * the sequence value acquire_lock returned; the functor runs and the store goes to the next slot under that same sequence value */
  OBL("sl.update.read_under_lock", rd_calls == 1 && rd_locked && rd_seq == in_seq0 + 1 && rd_slot == cur)   /* (rd_seq >> 1) == k */
  OBL("sl.update.read_under_lock", st_calls == 1 && st_locked && st_seq == rd_seq && st_slot == tgt)
  OBL("sl.update.read_under_lock", cas_ok_clock <= rd_clock && rd_clock < fn_clock && fn_clock <= st_clock && st_clock < unlock_clock)
  OBL("sl.writer.guarantee", !guar_bad && !acc_oob)
  OBL("sl.store.sync", !wfence_missing && !rel_weak && !cas_weak)
  T r = sl_load(&sl);
  OBL("sl.update.applies", r.b[in_g] == fn_out_g && sl._seq == in_seq0 + 2)
  XV_CANARY("update.done");
#if XV_S > 2
  if (gs != tgt && gs != cur) XV_CANARY("update.frame");
#endif
}

/* =================== SEQ: slot arithmetic, reader against a writer that is inside =================== */
void h_slots(void) {
  struct seqlock sl; g_sl = &sl; havoc_shared(); reset_monitors(); init_inputs();
  XV_ASSUME(sl._seq <= MAXSEQ && !(sl._seq & 1));
  in_seq0 = sl._seq; sequence_t k = sl._seq >> 1;
  /* a reader at the quiescent sequence 2k returns the contents of slot k mod slots */
  unsigned char cur_g = sl._data[k % XV_S].b[in_g];
  T r0 = sl_load(&sl);
  unsigned reader_even = rd_slot;
  OBL("sl.slot.reader", rd_calls == 1 && reader_even == (unsigned)(k % XV_S) && r0.b[in_g] == cur_g)
  OBL("sl.load.sync", !seq_load_weak && !fence_missing && !pending_data_loads)
  OBL("sl.load.readonly", n_data_stores == 0 && n_seq_stores == 0 && n_cas == 0 && sl._seq == in_seq0)
#if XV_S > 1
  /* a reader that finds the odd sequence 2k+1 (a writer is inside) still reads slot k mod slots */
  sl._seq = in_seq0 + 1; shadow_seq = sl._seq;
  T r1 = sl_load(&sl);
  unsigned reader_odd = rd_slot;
  OBL("sl.slot.reader", rd_calls == 2 && reader_odd == reader_even && r1.b[in_g] == cur_g)
  sl._seq = in_seq0; shadow_seq = sl._seq;
#endif
  /* the writer that turns 2k into 2k+1 writes slot (k+1) mod slots ... */
  T v = nondet_T();
  sl_store(&sl, &v);
  OBL("sl.slot.writer", st_calls == 1 && st_slot == (unsigned)((k + 1) % XV_S))
#if XV_S > 1
  /* ... which is never the slot a reader of 2k or 2k+1 reads */
  OBL("sl.slot.disjoint", st_slot != reader_even && st_slot != reader_odd)
  XV_CANARY("slots.multi");
#endif
  XV_CANARY("slots.done");
}

/* =================== SOLO: load terminates (slots > 1) from any state, odd _seq included =================== */
void h_load_solo(void) {
  struct seqlock sl; g_sl = &sl; havoc_shared(); reset_monitors(); init_inputs();
  XV_ASSUME(sl._seq <= MAXSEQ);
  T r = sl_load(&sl);
  OBL("sl.load.readonly", n_data_stores == 0 && n_seq_stores == 0 && n_cas == 0)
  if (sl._seq & 1) XV_CANARY("solo.odd"); else XV_CANARY("solo.even");
}

/* =================== INT: load against writers =================== */
void h_load_int(void) {
#ifdef XV_INT
  struct seqlock sl; g_sl = &sl; havoc_shared(); reset_monitors(); init_inputs(); env_writes = 0;
  XV_ASSUME(sl._seq <= MAXSEQ);
  for (unsigned s = 0; s < XV_S; s++) XV_ASSUME(ver[s] <= MAXSEQ);
  in_seq0 = sl._seq;                                     /* every store that completed before the call has sequence <= in_seq0 */
  env_on = 1;
  T r = sl_load_cut(&sl);
  env_on = 0;
  /* the bytes were read from the slot designated (writer's 64-bit slot function) by an observation v of _seq made during the call,
   * with nothing happening between that observation and the start of the copy ... */
  OBL("sl.slot.reader", rd_slot == (unsigned)((rd_obs_v >> 1) % XV_S))
  OBL("sl.load.untorn", rd_fresh)
  /* ... which (single slot) was even, i.e. no writer was inside ... */
  OBL("sl.load.untorn", XV_S > 1 || !(rd_obs_v & 1))
  /* ... the slot was not written between that observation and the validating load of _seq ... */
  OBL("sl.load.untorn", !rd_dirty)
  /* ... so every byte was read while the slot still had the version it had at that observation, and equals the byte it held then */
  OBL("sl.load.untorn", g_rd_count == 1 && g_rd_ver == rd_ver)
  OBL("sl.load.untorn", r.b[in_g] == rd_snap)
  /* not older than the last store completed before the call; and load writes nothing */
  OBL("sl.load.fresh", rd_obs_v >= in_seq0 && (rd_obs_v >> 1) >= (in_seq0 >> 1))
  OBL("sl.load.readonly", n_data_stores == 0 && n_seq_stores == 0 && n_cas == 0)
  OBL("sl.load.sync", !seq_load_weak && !fence_missing)
  XV_CANARY("load_int.returned");
#if XV_S > 1
  if (sl._seq != rd_obs_v) XV_CANARY("load_int.seq_moved");        /* validated although _seq moved on during the copy */
#endif
  if (env_writes) XV_CANARY("load_int.env_wrote");
  if (in_seq0 & 1) XV_CANARY("load_int.odd_start");
#endif
}

/* =================== INT: acquire_lock against other writers =================== */
void h_acquire_int(void) {
#ifdef XV_INT
  struct seqlock sl; g_sl = &sl; havoc_shared(); reset_monitors(); init_inputs(); env_writes = 0;
  XV_ASSUME(sl._seq <= MAXSEQ);
  env_on = 1;
  sequence_t r = sl_acquire_lock_cut(&sl);
  env_on = 0;
  OBL("sl.lock.acquire", n_cas_ok == 1 && lock_mine && (r & 1) && sl._seq == r && shadow_seq == r)
  OBL("sl.writer.guarantee", !guar_bad && n_seq_stores == 0 && n_data_stores == 0)
  OBL("sl.store.sync", !cas_weak)
  XV_CANARY("acquire_int.returned");
  if (env_writes) XV_CANARY("acquire_int.env_wrote");
#endif
}
