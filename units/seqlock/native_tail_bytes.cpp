// F7: seqlock's word-wise copy loops drop the trailing sizeof(T) % sizeof(uintptr_t) bytes.
// g++ -std=c++17 -fno-access-control -I /repo native_tail_bytes.cpp && ./a.out    (exit 1 = defect present)
#include <xenium/seqlock.hpp>
#include <cstdint>
#include <cstdio>

struct Point3 { // 12 bytes, alignment 4: admissible (default constructible, trivially copyable/destructible, larger than a pointer)
  std::int32_t x, y, z;
};

int main() {
  int bad = 0;
  {
    xenium::seqlock<Point3> s(Point3{1, 2, 3});
    s.store(Point3{10, 20, 30});
    // look at what store() left in the slot (load()'s own result has the same hole, but there the missing bytes are uninitialised stack)
    const Point3& in_slot = *reinterpret_cast<const Point3*>(&s._data[0]);
    std::printf("slots=1: after store({10,20,30}) the slot holds {%d,%d,%d}\n", in_slot.x, in_slot.y, in_slot.z);
    if (in_slot.z != 30) { std::printf("  -> z still has the value from before the store: the last 4 of 12 bytes were not copied\n"); bad = 1; }
    s.update([](Point3& p) { p.z += 1000; });
    const Point3& after = *reinterpret_cast<const Point3*>(&s._data[0]);
    std::printf("slots=1: after update(z += 1000) the slot holds {%d,%d,%d}\n", after.x, after.y, after.z);
    if (after.z != 1030) { bad = 1; }
  }
  {
    xenium::seqlock<Point3, xenium::policy::slots<2>> s(Point3{1, 2, 3});
    s.store(Point3{10, 20, 30});
    s.store(Point3{11, 21, 31});
    s.store(Point3{12, 22, 32});
    Point3 r = s.load();
    std::printf("slots=2: store x3, load() = {%d,%d,%d} (expected {12,22,32})\n", r.x, r.y, r.z);
    if (r.z != 32) { bad = 1; }
    std::printf("slots=2: slot 1 starts at offset %zu of the seqlock object and is accessed as std::atomic<uintptr_t> (needs alignment %zu)\n",
                reinterpret_cast<const char*>(&s._data[1]) - reinterpret_cast<const char*>(&s), alignof(std::atomic<std::uintptr_t>));
    if ((reinterpret_cast<const char*>(&s._data[1]) - reinterpret_cast<const char*>(&s)) % alignof(std::atomic<std::uintptr_t>) != 0) { bad = 1; }
  }
  std::printf(bad ? "DEFECT PRESENT\n" : "ok\n");
  return bad;
}
