// native replay for sl.copy.* and sl.store_load.roundtrip: runs the real xenium::seqlock from the repository on an element type of
// in_W bytes with alignment in_A and in_S slots (the shapes of the failing cbmc run), first the private copy routines on slot in_slot,
// then store()/load() round trips through every slot.  exit 0: property holds, 1: violation reproduced, 2: cannot represent.
#include <xenium/seqlock.hpp>
#include <cstdio>
#include <cstdlib>
#include <cstring>
#include <map>
#include <new>
#include <string>

static std::map<std::string, unsigned long long> args;

template <unsigned W, unsigned A>
struct alignas(A) Elem {
  unsigned char b[W];
};

// overwrite the part of the stack the next call will use, so that "uninitialised" bytes of load()'s result are recognisable
static void __attribute__((noinline)) poison_stack() {
  volatile unsigned char junk[4096];
  for (unsigned i = 0; i < sizeof junk; ++i) { junk[i] = 0xEE; }
}

template <unsigned W, unsigned A, unsigned S>
int run(unsigned g, unsigned slot) {
  using T = Elem<W, A>;
  static_assert(sizeof(T) == W, "W must be a multiple of A");
  using SL = xenium::seqlock<T, xenium::policy::slots<S>>;
  alignas(64) static unsigned char mem[sizeof(SL) + 64];
  std::memset(mem, 0x55, sizeof mem);
  SL* s = new (mem) SL; // default-initialisation: _seq = 0, the slots keep the 0x55 pattern
  int bad = 0;
  std::printf("seqlock<T, slots<%u>>: sizeof(T)=%u alignof(T)=%u sizeof(storage_t)=%zu copy loop: %zu word(s) of %zu bytes; cbmc's ghost byte %u, slot %u\n",
              S, W, A, sizeof(typename SL::storage_t), sizeof(T) / sizeof(typename SL::copy_t), sizeof(typename SL::copy_t), g, slot);

  // ---- the copy routines on one slot ----
  T src;
  for (unsigned i = 0; i < W; ++i) { src.b[i] = static_cast<unsigned char>(0xA0 + i); }
  const auto seq_before = s->_seq.load();
  s->store_data(src, s->_data[slot]);
  const auto* raw = reinterpret_cast<const unsigned char*>(&s->_data[slot]);
  unsigned lost = 0;
  int first = -1;
  for (unsigned i = 0; i < W; ++i) {
    if (raw[i] != src.b[i]) { ++lost; if (first < 0) { first = static_cast<int>(i); } }
  }
  if (lost != 0) {
    std::printf("sl.copy.all_bytes VIOLATED: after store_data %u of %u bytes of the slot differ from the source (first: byte %d holds 0x%02x, source 0x%02x)%s\n",
                lost, W, first, raw[first], src.b[first], (g < W && raw[g] != src.b[g]) ? " - including cbmc's ghost byte" : "");
    bad = 1;
  }
  for (unsigned j = 0; j < S; ++j) {
    if (j == slot) { continue; }
    const auto* other = reinterpret_cast<const unsigned char*>(&s->_data[j]);
    for (unsigned i = 0; i < sizeof(typename SL::storage_t); ++i) {
      if (other[i] != 0x55) { std::printf("sl.copy.all_bytes VIOLATED: store_data to slot %u changed byte %u of slot %u\n", slot, i, j); bad = 1; break; }
    }
  }
  if (s->_seq.load() != seq_before) { std::printf("sl.copy.all_bytes VIOLATED: store_data changed _seq\n"); bad = 1; }
  if (reinterpret_cast<std::uintptr_t>(&s->_data[slot]) % alignof(std::atomic<typename SL::copy_t>) != 0) {
    std::printf("sl.copy.aligned VIOLATED: slot %u lies at offset %zu of the (64-byte aligned) seqlock object, but is accessed as std::atomic<copy_t> (alignment %zu)\n",
                slot, static_cast<std::size_t>(reinterpret_cast<const unsigned char*>(&s->_data[slot]) - mem), alignof(std::atomic<typename SL::copy_t>));
    bad = 1;
  }
  T dest;
  std::memset(&dest, 0xEE, sizeof dest);
  s->read_data(dest, s->_data[slot]);
  lost = 0; first = -1;
  for (unsigned i = 0; i < W; ++i) {
    if (dest.b[i] != raw[i]) { ++lost; if (first < 0) { first = static_cast<int>(i); } }
  }
  if (lost != 0) {
    std::printf("sl.copy.all_bytes VIOLATED: read_data did not deliver %u of %u bytes of the slot (first: byte %d is 0x%02x, slot holds 0x%02x)\n",
                lost, W, first, dest.b[first], raw[first]);
    bad = 1;
  }

  // ---- store(v); load() == v, through every slot and once around ----
  for (unsigned round = 0; round <= S; ++round) {
    T v;
    for (unsigned i = 0; i < W; ++i) { v.b[i] = static_cast<unsigned char>(0x10 * (round + 1) + i); }
    s->store(v);
    poison_stack();
    T r = s->load();
    if (std::memcmp(&r, &v, W) != 0) {
      unsigned i = 0;
      while (r.b[i] == v.b[i]) { ++i; }
      std::printf("sl.store_load.roundtrip VIOLATED: store #%u then load(): byte %u is 0x%02x, stored 0x%02x\n", round + 1, i, r.b[i], v.b[i]);
      bad = 1;
      break;
    }
  }
  if (bad == 0) { std::printf("all %u bytes copied and returned; slots untouched; round trips ok\n", W); }
  return bad;
}

template <unsigned W, unsigned A>
int by_slots(unsigned S, unsigned g, unsigned slot) {
  if constexpr (W % A != 0) {
    std::printf("W=%u is not a multiple of A=%u\n", W, A);
    return 2;
  } else {
    switch (S) {
      case 1: return run<W, A, 1>(g, slot);
      case 2: return run<W, A, 2>(g, slot);
      case 3: return run<W, A, 3>(g, slot);
      case 4: return run<W, A, 4>(g, slot);
      case 8: return run<W, A, 8>(g, slot);
      default: std::printf("slots=%u not instantiated in the replay program\n", S); return 2;
    }
  }
}

template <unsigned W>
int by_align(unsigned A, unsigned S, unsigned g, unsigned slot) {
  switch (A) {
    case 1: return by_slots<W, 1>(S, g, slot);
    case 2: return by_slots<W, 2>(S, g, slot);
    case 4: return by_slots<W, 4>(S, g, slot);
    case 8: return by_slots<W, 8>(S, g, slot);
    default: std::printf("alignment %u not instantiated\n", A); return 2;
  }
}

template <unsigned W>
int by_size(unsigned w, unsigned A, unsigned S, unsigned g, unsigned slot) {
  if (w == W) { return by_align<W>(A, S, g, slot); }
  if constexpr (W < 64) { return by_size<W + 1>(w, A, S, g, slot); }
  std::printf("sizeof(T)=%u not instantiated (9..64)\n", w);
  return 2;
}

int main(int argc, char** argv) {
  for (int i = 1; i < argc; ++i) {
    char* eq = std::strchr(argv[i], '=');
    if (eq == nullptr) { continue; }
    args[std::string(argv[i], eq - argv[i])] = std::strtoull(eq + 1, nullptr, 0);
  }
  const unsigned W = args.count("in_W") ? args["in_W"] : 12, A = args.count("in_A") ? args["in_A"] : 4, S = args.count("in_S") ? args["in_S"] : 2;
  const unsigned g = args.count("in_g") ? args["in_g"] : W - 1, slot = args.count("in_slot") ? args["in_slot"] : S - 1;
  if (slot >= S) { std::printf("inconsistent inputs\n"); return 2; }
  return by_size<9>(W, A, S, g, slot);
}
