/* unit tbl - thread_block_list (C17, C02).  Contracts, ghost state, harnesses; function bodies come from lowered.h */
#include <stdint.h>
#include <stddef.h>
static void mon_load(void* addr, int o);
static void mon_store(void* addr, uint64_t v, int o);
static void mon_cas(void* addr, uint64_t e, uint64_t d, _Bool ok, int o);
static void mon_rmw(void* addr, uint64_t oldv, uint64_t newv, int o);
#define XV_ON_LOAD(addr, val, order) mon_load((void*)(addr), (order))
#define XV_ON_STORE(addr, val, order) mon_store((void*)(addr), (uint64_t)(val), (order))
#define XV_ON_CAS(addr, e, d, ok, order) mon_cas((void*)(addr), (uint64_t)(e), (uint64_t)(d), (ok), (order))
#define XV_ON_RMW(addr, oldv, newv, order) mon_rmw((void*)(addr), (uint64_t)(oldv), (uint64_t)(newv), (order))
#include "xv.h"
int xv_threw; uint64_t xv_clock, xv_rmw_old; _Bool xv_cas_ok;

#ifndef XV_E
#define XV_E 3
#endif
#ifndef XV_L
#define XV_L 3
#endif
enum { ES_free = 0, ES_inactive = 1, ES_active = 2 };      /* enum class entry_state { free, inactive, active } */
struct tentry { struct tentry* next_entry; int state; };
struct node { struct node* next; };
struct tbl { struct tentry* head; struct node* abandoned_retired_nodes; };
struct tbl_iter { struct tentry* ptr; };
static const struct tbl_iter xv_no_iter = {0};
static struct tbl_iter XV_MAKE_ITER(struct tentry* p) { struct tbl_iter it; it.ptr = p; return it; }
#define XV_INIT_next_entry(self, v) ((self)->next_entry = (v))
#define XV_INIT_state(self, v) ((self)->state = (v))

/* entries: epool[0..XV_E-1] may be in the list (WLOG in this order: nothing compares entry addresses), epool[XV_E] is the
 * memory handed out by `new T()`, epool[XV_E+1] is an entry another thread may publish (INT) */
#define EP (XV_E + 2)
#define FRESH (&epool[XV_E])
#define SPARE (&epool[XV_E + 1])
struct tentry epool[EP];
struct tbl T;
unsigned in_ne, in_states; unsigned char in_state[XV_E]; int in_init;   /* in_states: 2 bits per entry */

/* ---- ghost allocator for `new T()`: counts, hands out raw memory, runs the real constructor text ---- */
unsigned g_alloc; struct tentry* g_node;
static void te_ctor(struct tentry* self);
static struct tentry* XV_NEW_T(void) {
  g_alloc++; struct tentry* r = FRESH;
  r->next_entry = (struct tentry*)0; r->state = nondet_int();     /* raw */
  r->next_entry = &epool[0];                                       /* raw: some garbage pointer */
  te_ctor(r); g_node = r; return r;
}

/* ---- monitors ---- */
static int entry_of_state(void* addr) { for (int k = 0; k < EP; k++) if (addr == (void*)&epool[k].state) return k; return -1; }
unsigned m_st_store_n, m_st_cas_n, m_st_cas_ok_n, m_head_store_n, m_head_cas_n, m_head_cas_ok_n, m_ab_cas_n, m_ab_cas_ok_n, m_ab_xchg_n, m_ab_store_n, m_nx_dummy;
int m_st_store_k, m_st_store_v, m_st_store_o, m_won_k, m_won_e, m_won_d, m_won_o, m_head_cas_o, m_head_load_o, m_ab_cas_o, m_ab_xchg_o;
uint64_t m_st_store_clock, m_head_cas_clock;
struct tentry *m_head_cas_e, *m_head_cas_d, *m_head_cas_nodenext; struct node *m_ab_cas_e, *m_ab_cas_d, *m_ab_cas_lastnext, *m_ab_xchg_old, *m_ab_xchg_new;
struct node* mon_last;
static void mon_load(void* addr, int o) { if (addr == (void*)&T.head) m_head_load_o = o; }
static void mon_store(void* addr, uint64_t v, int o) {
  int k = entry_of_state(addr);
  if (k >= 0) { m_st_store_n++; m_st_store_k = k; m_st_store_v = (int)v; m_st_store_o = o; m_st_store_clock = xv_clock; }
  if (addr == (void*)&T.head) m_head_store_n++;
  if (addr == (void*)&T.abandoned_retired_nodes) m_ab_store_n++;
}
static void mon_cas(void* addr, uint64_t e, uint64_t d, _Bool ok, int o) {
  int k = entry_of_state(addr);
  if (k >= 0) { m_st_cas_n++; if (ok) { m_st_cas_ok_n++; m_won_k = k; m_won_e = (int)e; m_won_d = (int)d; m_won_o = o; } }
  if (addr == (void*)&T.head) { m_head_cas_n++; if (ok) { m_head_cas_ok_n++; m_head_cas_e = (struct tentry*)e; m_head_cas_d = (struct tentry*)d; m_head_cas_o = o;
      m_head_cas_clock = xv_clock; m_head_cas_nodenext = g_node ? g_node->next_entry : (struct tentry*)0; } }
  if (addr == (void*)&T.abandoned_retired_nodes) { m_ab_cas_n++; if (ok) { m_ab_cas_ok_n++; m_ab_cas_e = (struct node*)e; m_ab_cas_d = (struct node*)d; m_ab_cas_o = o;
      m_ab_cas_lastnext = mon_last ? mon_last->next : (struct node*)0; } }
}
static void mon_rmw(void* addr, uint64_t oldv, uint64_t newv, int o) {
  if (addr == (void*)&T.abandoned_retired_nodes) { m_ab_xchg_n++; m_ab_xchg_old = (struct node*)oldv; m_ab_xchg_new = (struct node*)newv; m_ab_xchg_o = o; }
}
static void reset_monitors(void) {
  m_st_store_n = m_st_cas_n = m_st_cas_ok_n = m_head_store_n = m_head_cas_n = m_head_cas_ok_n = m_ab_cas_n = m_ab_cas_ok_n = m_ab_xchg_n = m_ab_store_n = 0;
  g_alloc = 0; g_node = 0; mon_last = 0; m_won_k = -1; m_st_store_k = -1; m_head_load_o = -1;
}

/* ---- retired-node chains (same conventions as unit rlist): A = npool[0..na-1], B = npool[L..L+nb-1], outside node npool[2L] ---- */
#define NN (2 * XV_L + 1)
struct node npool[NN]; unsigned in_na, in_nb;
static struct node* nondet_node(void) { unsigned k = nondet_uint(); return k < NN ? &npool[k] : (struct node*)0; }
static struct node* nodeA(unsigned i) { return &npool[i]; }
static struct node* nodeB(unsigned i) { return &npool[XV_L + i]; }
static _Bool chainA_intact(void) { for (unsigned i = 0; i + 1 < XV_L; i++) if (i + 1 < in_na && nodeA(i)->next != nodeA(i + 1)) return 0; return 1; }
static _Bool is_chain(struct node* p, _Bool with_a, _Bool with_b) {
  if (with_a) for (unsigned i = 0; i < XV_L; i++) if (i < in_na) { if (p != nodeA(i)) return 0; p = p->next; }
  if (with_b) for (unsigned i = 0; i < XV_L; i++) if (i < in_nb) { if (p != nodeB(i)) return 0; p = p->next; }
  return p == 0;
}
struct node* nsnap[NN];
static void havoc_nodes(void) {
  for (unsigned i = 0; i < NN; i++) npool[i].next = nondet_node();
  in_na = nondet_uint(); in_nb = nondet_uint(); XV_ASSUME(in_na <= XV_L && in_nb <= XV_L);
  for (unsigned i = 0; i < XV_L; i++) { if (i < in_na) npool[i].next = (i + 1 < in_na) ? &npool[i + 1] : (struct node*)0;
                                        if (i < in_nb) npool[XV_L + i].next = (i + 1 < in_nb) ? &npool[XV_L + i + 1] : (struct node*)0; }
  for (unsigned i = 0; i < NN; i++) nsnap[i] = npool[i].next;
}

/* ---- INT environment ---- */
#ifdef XV_INT
_Bool env_on; int env_kind;   /* 1: one entry's state word; 2: entry list; 3: abandoned list */
struct tentry* env_entry;
static struct tentry* nondet_listed_entry(void) { unsigned k = nondet_uint(); if (k < in_ne) return &epool[k]; if (k == XV_E + 1) return SPARE; return (struct tentry*)0; }
void xv_env(void) {
  if (!env_on) return;
  if (env_kind == 1) { if (nondet_bool()) { env_entry->state = nondet_int(); XV_ASSUME(env_entry->state >= ES_free && env_entry->state <= ES_active); } }
  if (env_kind == 2) {
    /* other threads adopt / abandon / activate entries that we do not own, and publish entries */
    for (int k = 0; k < EP; k++) if (k != XV_E && k != m_won_k && nondet_bool()) { epool[k].state = nondet_int(); XV_ASSUME(epool[k].state >= ES_free && epool[k].state <= ES_active); }
    if (nondet_bool()) T.head = nondet_listed_entry();
  }
  if (env_kind == 3) { if (nondet_bool()) T.abandoned_retired_nodes = nondet_node(); }
}
#endif

/* ---- loop cuts of the two CAS retry loops ---- */
struct node *g_obj, *g_last, *g_ab0; struct tentry* g_head0;
#ifdef XV_INT
#define XV_INV_ABAND (obj == g_obj && last == g_last && chainA_intact() && m_ab_cas_ok_n == 0 && m_ab_store_n == 0)
#define XV_INV_ADDE (node == g_node && m_head_cas_ok_n == 0 && m_head_store_n == 0)
#define XV_HAVOC_ENV_ENTRIES for (int xk = 0; xk < EP; xk++) if (xk != XV_E && xk != m_won_k) { epool[xk].state = nondet_int(); XV_ASSUME(epool[xk].state >= ES_free && epool[xk].state <= ES_active); }
#else
#define XV_INV_ABAND (obj == g_obj && last == g_last && chainA_intact() && self->abandoned_retired_nodes == g_ab0 && h == g_ab0 && m_ab_cas_ok_n == 0 && m_ab_store_n == 0)
#define XV_INV_ADDE (node == g_node && self->head == g_head0 && h == g_head0 && m_head_cas_ok_n == 0 && m_head_store_n == 0)
#define XV_HAVOC_ENV_ENTRIES
#endif
#define XV_HAVOC_ABAND h = nondet_node(); last->next = nondet_node(); self->abandoned_retired_nodes = nondet_node(); m_ab_cas_n = nondet_uint()
#define XV_HAVOC_ADDE h = (struct tentry*)0; { unsigned xh = nondet_uint(); if (xh < EP) h = &epool[xh]; } node->next_entry = (struct tentry*)0; { unsigned xn = nondet_uint(); if (xn < EP) node->next_entry = &epool[xn]; } \
   self->head = (struct tentry*)0; { unsigned xq = nondet_uint(); if (xq < EP && xq != XV_E) self->head = &epool[xq]; } m_head_cas_n = nondet_uint(); XV_HAVOC_ENV_ENTRIES

#define TE_is_active_dflt(self) te_is_active((self), XV_IS_ACTIVE_DEFAULT_ORDER)
#define TE_try_adopt(e, s) te_try_adopt(&(e), (s))
#define TE_abandon(e) te_abandon(&(e))
#include "lowered.h"

/* =============================== entry =============================== */
static void havoc_entries(void) {
  for (int k = 0; k < EP; k++) { epool[k].state = nondet_int(); XV_ASSUME(epool[k].state >= ES_free && epool[k].state <= ES_active);
    unsigned n = nondet_uint(); epool[k].next_entry = n < EP ? &epool[n] : (struct tentry*)0; }
  T.head = (struct tentry*)0; T.abandoned_retired_nodes = (struct node*)0; reset_monitors();
}
/* list: head -> epool[0] -> ... -> epool[ne-1] -> null with states in_state[] */
static void build_list(void) {
  in_ne = nondet_uint(); XV_ASSUME(in_ne <= XV_E);
  in_states = nondet_uint();
  for (unsigned k = 0; k < XV_E; k++) { in_state[k] = (in_states >> (2 * k)) & 3; XV_ASSUME(in_state[k] <= ES_active);
    if (k < in_ne) { epool[k].state = in_state[k]; epool[k].next_entry = (k + 1 < in_ne) ? &epool[k + 1] : (struct tentry*)0; } }
  T.head = in_ne ? &epool[0] : (struct tentry*)0;
}
void h_entry(void) {
  havoc_entries(); unsigned k = nondet_uint(); XV_ASSUME(k < EP); struct tentry* e = &epool[k];
  int s0 = e->state; struct tentry* n0 = e->next_entry; unsigned op = nondet_uint();
  unsigned o = nondet_uint(); XV_ASSUME(o < EP && o != k); int os0 = epool[o].state; struct tentry* on0 = epool[o].next_entry;
  if (op == 0) {
    int ord = nondet_int(); _Bool r = te_is_active(e, ord);
    XV_OBL("tbl.entry.state_machine", r == (s0 == ES_active) && e->state == s0 && e->next_entry == n0 && m_st_store_n == 0 && m_st_cas_n == 0);
  } else if (op == 1) {
    XV_ASSUME(s0 == ES_active);       /* requires (asserted in the code): only the owner of an active entry abandons it */
    te_abandon(e);
    XV_OBL("tbl.abandon.release", e->state == ES_free && e->next_entry == n0 && m_st_store_n == 1 && m_st_store_k == (int)k && XV_IS_RELEASE(m_st_store_o) && m_st_cas_n == 0);
    XV_CANARY("entry.abandon");
  } else if (op == 2) {
    XV_ASSUME(s0 == ES_inactive);
    te_activate(e);
    XV_OBL("tbl.entry.state_machine", e->state == ES_active && e->next_entry == n0);
    XV_OBL("tbl.abandon.release", m_st_store_n == 1 && XV_IS_RELEASE(m_st_store_o));
    XV_CANARY("entry.activate");
  } else if (op == 3) {
    int init = nondet_int(); XV_ASSUME(init == ES_inactive || init == ES_active);
    _Bool r = te_try_adopt(e, init);
    XV_OBL("tbl.entry.state_machine", r == (s0 == ES_free) && e->state == (r ? init : s0) && e->next_entry == n0 && m_st_store_n == 0);
    if (r) { XV_OBL("tbl.adopt.exclusive", m_st_cas_ok_n == 1 && m_won_k == (int)k && m_won_e == ES_free && m_won_d == init && XV_IS_ACQUIRE(m_won_o)); XV_CANARY("entry.adopt_true"); }
    else { XV_OBL("tbl.adopt.exclusive", m_st_cas_ok_n == 0); XV_CANARY("entry.adopt_false"); }
  } else {
    e->state = nondet_int(); te_ctor(e);
    XV_OBL("tbl.entry.state_machine", e->state == ES_active && e->next_entry == 0);
  }
  XV_OBL("tbl.entry.state_machine", epool[o].state == os0 && epool[o].next_entry == on0 && T.head == 0);
}
void h_entry_int(void) {
#ifdef XV_INT
  havoc_entries(); unsigned k = nondet_uint(); XV_ASSUME(k < EP); struct tentry* e = &epool[k];
  struct tentry* n0 = e->next_entry; int init = nondet_int(); XV_ASSUME(init == ES_inactive || init == ES_active);
  env_on = 1; env_kind = 1; env_entry = e;
  _Bool r = te_try_adopt(e, init);
  env_on = 0;
  XV_OBL("tbl.adopt.exclusive", m_st_store_n == 0 && m_st_cas_n <= 1 && e->next_entry == n0);
  XV_OBL("tbl.adopt.exclusive", r == (m_st_cas_ok_n == 1));
  if (r) { XV_OBL("tbl.adopt.exclusive", m_won_k == (int)k && m_won_e == ES_free && m_won_d == init && XV_IS_ACQUIRE(m_won_o)); XV_CANARY("entry_int.true"); }
  if (!r && m_st_cas_n == 1) XV_CANARY("entry_int.lost");
#endif
}

/* =============================== iteration =============================== */
void h_iter(void) {
  havoc_entries(); build_list();
  struct tbl_iter it = tbl_begin(&T), e = tbl_end(&T); unsigned n = 0;
  XV_OBL("tbl.iter.visits_all", XV_IS_ACQUIRE(m_head_load_o));
  while (it_ne(&it, &e)) {
    XV_OBL("tbl.iter.visits_all", n < in_ne && it_deref(&it) == &epool[n]);
    it_inc(&it); n++;
  }
  XV_OBL("tbl.iter.visits_all", n == in_ne && m_st_store_n == 0 && m_head_store_n == 0);
  if (in_ne == XV_E) XV_CANARY("iter.full");
  if (in_ne == 0) XV_CANARY("iter.empty");
}

/* =============================== adopt_or_create_entry =============================== */
void h_adopt(void) {
  havoc_entries(); build_list();
  in_init = nondet_int(); XV_ASSUME(in_init == ES_inactive || in_init == ES_active);
  g_head0 = T.head;
  _Bool some_free = 0; for (unsigned k = 0; k < XV_E; k++) if (k < in_ne && in_state[k] == ES_free) some_free = 1;
  unsigned j = nondet_uint(); XV_ASSUME(j < XV_E);       /* an arbitrary old entry (if j < in_ne) */
  struct tentry* r = (in_init == ES_active) ? tbl_acquire_entry(&T) : tbl_acquire_inactive_entry(&T);
  if (some_free) {
    unsigned rk = XV_E; for (unsigned k = 0; k < XV_E; k++) if (r == &epool[k]) rk = k;
    XV_OBL("tbl.abandon.release", XV_IS_ACQUIRE(m_head_load_o));       /* sync: the walk over the published entries starts with an acquire load of head */
    XV_OBL("tbl.adopt.reuses", g_alloc == 0 && rk < in_ne && in_state[rk] == ES_free && r->state == in_init);
    XV_OBL("tbl.adopt.reuses", T.head == g_head0 && m_head_cas_n == 0 && m_head_store_n == 0);
    XV_OBL("tbl.adopt.reuses", j >= in_ne || (j == rk || epool[j].state == in_state[j]) && epool[j].next_entry == ((j + 1 < in_ne) ? &epool[j + 1] : (struct tentry*)0));
    XV_CANARY("adopt.reused");
    if (in_ne == XV_E && rk == XV_E - 1) XV_CANARY("adopt.reused_last");
  } else {
    XV_OBL("tbl.adopt.reuses", g_alloc == 1 && r == FRESH && r->state == in_init);
    XV_OBL("tbl.adopt.reuses", T.head == r && r->next_entry == g_head0);
    XV_OBL("tbl.add_entry.links", m_head_cas_ok_n == 1 && XV_IS_RELEASE(m_head_cas_o) && m_head_store_n == 0);
    XV_OBL("tbl.adopt.reuses", j >= in_ne || (epool[j].state == in_state[j] && epool[j].next_entry == ((j + 1 < in_ne) ? &epool[j + 1] : (struct tentry*)0)));
    XV_CANARY("adopt.created");
    if (in_ne == 0) XV_CANARY("adopt.created_empty");
  }
}
void h_adopt_int(void) {
#ifdef XV_INT
  havoc_entries(); build_list();
  in_init = nondet_int(); XV_ASSUME(in_init == ES_inactive || in_init == ES_active);
  { unsigned k = nondet_uint(); SPARE->next_entry = k < in_ne ? &epool[k] : (struct tentry*)0; }   /* linked by its publisher before publication */
  struct tentry* nx[EP]; for (int k = 0; k < EP; k++) nx[k] = epool[k].next_entry;
  env_on = 1; env_kind = 2;
  struct tentry* r = tbl_adopt_or_create_entry(&T, in_init);
  env_on = 0;
  XV_OBL("tbl.adopt.exclusive", g_alloc <= 1 && m_st_cas_ok_n <= 1 && g_alloc + m_st_cas_ok_n == 1);     /* exactly one entry acquired, none leaked */
  if (g_alloc == 0) {
    XV_OBL("tbl.adopt.exclusive", r == &epool[m_won_k] && m_won_k != XV_E && m_won_e == ES_free && m_won_d == in_init && XV_IS_ACQUIRE(m_won_o));
    XV_OBL("tbl.adopt.exclusive", m_st_store_n == 0 && m_head_cas_n == 0 && m_head_store_n == 0 && r->state == in_init);
    XV_CANARY("adopt_int.reused");
  } else {
    XV_OBL("tbl.adopt.exclusive", r == FRESH && r->state == in_init);
    XV_OBL("tbl.adopt.exclusive", m_st_store_n == 1 && m_st_store_k == XV_E && m_st_store_v == in_init && m_st_store_clock < m_head_cas_clock);  /* only its own, still private, entry is written by plain store */
    XV_OBL("tbl.add_entry.links", m_head_cas_ok_n == 1 && m_head_store_n == 0 && m_head_cas_d == FRESH && m_head_cas_nodenext == m_head_cas_e && FRESH->next_entry == m_head_cas_e && XV_IS_RELEASE(m_head_cas_o));
    XV_CANARY("adopt_int.created");
    if (m_st_cas_n > 0) XV_CANARY("adopt_int.lost_then_created");
  }
  unsigned j = nondet_uint(); XV_ASSUME(j < EP && j != XV_E);
  XV_OBL("tbl.adopt.exclusive", epool[j].next_entry == nx[j]);      /* links of existing entries are never written */
#endif
}

/* =============================== add_entry =============================== */
void h_add_entry(void) {
  havoc_entries(); build_list();
  g_head0 = T.head; g_node = FRESH; unsigned j = nondet_uint(); XV_ASSUME(j < XV_E);
  int fs = FRESH->state;
  tbl_add_entry(&T, FRESH);
  XV_OBL("tbl.add_entry.links", T.head == FRESH && FRESH->next_entry == g_head0 && FRESH->state == fs);
  XV_OBL("tbl.add_entry.links", m_head_cas_ok_n == 1 && m_head_store_n == 0 && XV_IS_RELEASE(m_head_cas_o) && m_st_store_n == 0 && m_st_cas_n == 0);
  XV_OBL("tbl.add_entry.links", j >= in_ne || (epool[j].state == in_state[j] && epool[j].next_entry == ((j + 1 < in_ne) ? &epool[j + 1] : (struct tentry*)0)));
  XV_CANARY("add_entry.done");
}
void h_add_entry_int(void) {
#ifdef XV_INT
  havoc_entries(); build_list();
  g_node = FRESH; int fs = FRESH->state;
  struct tentry* nx[EP]; for (int k = 0; k < EP; k++) nx[k] = epool[k].next_entry;
  env_on = 1; env_kind = 2; m_won_k = -1;
  tbl_add_entry(&T, FRESH);
  env_on = 0;
  XV_OBL("tbl.add_entry.links", m_head_cas_ok_n == 1 && m_head_store_n == 0 && m_head_cas_d == FRESH && XV_IS_RELEASE(m_head_cas_o));
  XV_OBL("tbl.add_entry.links", m_head_cas_nodenext == m_head_cas_e && FRESH->next_entry == m_head_cas_e && FRESH->state == fs);
  unsigned j = nondet_uint(); XV_ASSUME(j < EP && j != XV_E);
  XV_OBL("tbl.add_entry.links", epool[j].next_entry == nx[j] && m_st_store_n == 0 && m_st_cas_n == 0);
  XV_CANARY("add_entry_int.done");
  if (m_head_cas_n > 1) XV_CANARY("add_entry_int.retried");
#endif
}
void h_release(void) {
  havoc_entries(); build_list();
  unsigned k = nondet_uint(); XV_ASSUME(k < EP); XV_ASSUME(epool[k].state == ES_active);
  unsigned o = nondet_uint(); XV_ASSUME(o < EP && o != k); int os0 = epool[o].state; struct tentry* on0 = epool[o].next_entry;
  struct tentry* n0 = epool[k].next_entry; struct tentry* h0 = T.head;
  tbl_release_entry(&T, &epool[k]);
  XV_OBL("tbl.abandon.release", epool[k].state == ES_free && epool[k].next_entry == n0 && m_st_store_n == 1 && m_st_store_k == (int)k && XV_IS_RELEASE(m_st_store_o));
  XV_OBL("tbl.abandon.release", epool[o].state == os0 && epool[o].next_entry == on0 && T.head == h0 && m_head_cas_n == 0 && m_head_store_n == 0);
  XV_OBL("tbl.release.dispatches_to_derived", XV_RELEASE_ENTRY_STATIC_TYPE_IS_T == 1);
  XV_CANARY("release.done");
}

/* =============================== abandoned retired nodes =============================== */
void h_aband(void) {            /* SEQ: abandoned -> B ; abandon_retired_nodes(A[0]) => abandoned -> A ++ B */
  havoc_entries(); havoc_nodes(); XV_ASSUME(in_na >= 1);
  T.abandoned_retired_nodes = in_nb ? nodeB(0) : (struct node*)0; struct tentry* h0 = T.head;
  g_obj = nodeA(0); g_last = nodeA(in_na - 1); g_ab0 = T.abandoned_retired_nodes; mon_last = g_last;
  unsigned j = nondet_uint(); XV_ASSUME(j < NN);
  tbl_abandon_retired_nodes(&T, nodeA(0));
  XV_OBL("tbl.retired.conserve", T.abandoned_retired_nodes == nodeA(0) && is_chain(T.abandoned_retired_nodes, 1, 1));
  XV_OBL("tbl.retired.conserve", j == in_na - 1 || npool[j].next == nsnap[j]);
  XV_OBL("tbl.retired.conserve", m_ab_cas_ok_n == 1 && XV_IS_RELEASE(m_ab_cas_o) && m_ab_store_n == 0 && T.head == h0);
  if (in_nb == 0) XV_CANARY("aband.empty"); else XV_CANARY("aband.nonempty");
  if (in_na == XV_L) XV_CANARY("aband.long");
}
void h_aband_int(void) {
#ifdef XV_INT
  havoc_entries(); havoc_nodes(); XV_ASSUME(in_na >= 1);
  T.abandoned_retired_nodes = nondet_node();
  g_obj = nodeA(0); g_last = nodeA(in_na - 1); mon_last = g_last;
  unsigned j = nondet_uint(); XV_ASSUME(j < NN);
  env_on = 1; env_kind = 3;
  tbl_abandon_retired_nodes(&T, nodeA(0));
  env_on = 0;
  XV_OBL("tbl.retired.conserve", m_ab_cas_ok_n == 1 && m_ab_store_n == 0 && m_ab_xchg_n == 0 && m_ab_cas_d == nodeA(0) && XV_IS_RELEASE(m_ab_cas_o));
  /* at the successful CAS the tail of the chain points to exactly the head value that the CAS replaced (whatever other threads pushed or adopted meanwhile) */
  XV_OBL("tbl.abandon.commit", m_ab_cas_lastnext == m_ab_cas_e && chainA_intact() && nodeA(in_na - 1)->next == m_ab_cas_e);
  XV_OBL("tbl.retired.conserve", j == in_na - 1 || npool[j].next == nsnap[j]);
  XV_CANARY("aband_int.done");
  if (m_ab_cas_n > 1) XV_CANARY("aband_int.retried");
#endif
}
void h_adoptnodes(void) {
  havoc_entries(); havoc_nodes();
  T.abandoned_retired_nodes = in_nb ? nodeB(0) : (struct node*)0; struct tentry* h0 = T.head;
  unsigned j = nondet_uint(); XV_ASSUME(j < NN);
  struct node* r = tbl_adopt_abandoned_retired_nodes(&T);
  XV_OBL("tbl.retired.conserve", is_chain(r, 0, 1) && T.abandoned_retired_nodes == 0 && npool[j].next == nsnap[j] && T.head == h0);
  if (r) { XV_OBL("tbl.retired.conserve", m_ab_xchg_n == 1 && XV_IS_ACQUIRE(m_ab_xchg_o)); XV_CANARY("adoptnodes.some"); } else XV_CANARY("adoptnodes.null");
}
void h_adoptnodes_int(void) {
#ifdef XV_INT
  havoc_entries(); havoc_nodes(); T.abandoned_retired_nodes = nondet_node();
  unsigned j = nondet_uint(); XV_ASSUME(j < NN);
  env_on = 1; env_kind = 3;
  struct node* r = tbl_adopt_abandoned_retired_nodes(&T);
  env_on = 0;
  XV_OBL("tbl.retired.conserve", m_ab_cas_n == 0 && m_ab_store_n == 0 && m_ab_xchg_n <= 1 && npool[j].next == nsnap[j]);
  if (m_ab_xchg_n) XV_OBL("tbl.retired.conserve", r == m_ab_xchg_old && m_ab_xchg_new == 0 && XV_IS_ACQUIRE(m_ab_xchg_o));
  else XV_OBL("tbl.retired.conserve", r == 0);
  if (r) XV_CANARY("adoptnodes_int.some");
  if (m_ab_xchg_n && r == 0) XV_CANARY("adoptnodes_int.raced");
#endif
}
