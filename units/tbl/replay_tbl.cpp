// native replay for tbl.adopt.reuses / tbl.retired.conserve: builds a thread_block_list with in_ne entries whose states are
// given by in_states (2 bits per entry, list order), calls the REAL acquire_entry / acquire_inactive_entry with operator new
// interposed (allocation counter), then abandons/adopts chains of in_na / in_nb retired nodes.
// exit 0 = holds, 1 = violation reproduced, 2 = cannot represent.
#include <atomic>
#include <cassert>
#include <cstddef>
#include <cstdio>
#include <cstdlib>
#include <cstring>
#include <map>
#include <new>
#include <set>
#include <string>
#include <vector>
#include <xenium/reclamation/detail/deletable_object.hpp>
#include <xenium/reclamation/detail/thread_block_list.hpp>
using namespace xenium::reclamation::detail;
static long allocs = 0; static bool counting = false;
void* operator new(std::size_t n) { if (counting) allocs++; void* p = malloc(n); if (!p) abort(); return p; }
void operator delete(void* p) noexcept { free(p); }
void operator delete(void* p, std::size_t) noexcept { free(p); }
static int bad = 0;
#define CHECK(c, ...) do { if (!(c)) { printf("VIOLATION: " __VA_ARGS__); printf("\n"); bad++; } } while (0)
struct E : thread_block_list<E>::entry { int tag = 0; };
using TBL = thread_block_list<E>;
struct N : deletable_object { void delete_self() override {} };
int main(int argc, char** argv) {
  std::map<std::string, unsigned long long> a;
  for (int i = 1; i < argc; ++i) { char* eq = strchr(argv[i], '='); if (!eq) continue; a[std::string(argv[i], eq - argv[i])] = strtoull(eq + 1, 0, 0); }
  unsigned ne = a.count("in_ne") ? a["in_ne"] : 3, states = a.count("in_states") ? a["in_states"] : 0x12, init = a.count("in_init") ? a["in_init"] : 2;
  unsigned na = a.count("in_na") ? a["in_na"] : 2, nb = a.count("in_nb") ? a["in_nb"] : 1;
  if (ne > 12 || (init != 1 && init != 2) || na == 0 || na > 64 || nb > 64) { printf("cannot represent\n"); return 2; }
  TBL list;
  std::vector<E*> es(ne);
  for (unsigned k = ne; k-- > 0;) es[k] = list.acquire_entry();            // pushes at the head: create the last one first
  for (unsigned k = 0; k < ne; ++k) { unsigned s = (states >> (2 * k)) & 3; if (s > 2) { printf("cannot represent\n"); return 2; }
    es[k]->state.store(static_cast<TBL::entry_state>(s), std::memory_order_relaxed); es[k]->tag = int(k); }
  { unsigned k = 0; for (auto it = list.begin(); it != list.end(); ++it, ++k) CHECK(k < ne && &*it == es[k], "iteration order broken at %u", k); CHECK(k == ne, "iteration visited %u of %u", k, ne); }
  bool some_free = false; for (unsigned k = 0; k < ne; ++k) if (((states >> (2 * k)) & 3) == 0) some_free = true;
  counting = true; allocs = 0;
  E* r = init == 2 ? list.acquire_entry() : list.acquire_inactive_entry();
  counting = false;
  long idx = -1; for (unsigned k = 0; k < ne; ++k) if (es[k] == r) idx = k;
  if (some_free) {
    CHECK(allocs == 0, "%ld allocation(s) although a free entry exists", allocs);
    CHECK(idx >= 0 && ((states >> (2 * idx)) & 3) == 0, "result is not one of the free entries");
  } else {
    CHECK(allocs == 1 && idx < 0, "no free entry: expected exactly one allocation, got %ld", allocs);
    CHECK(list.head.load() == r && r->next_entry == (ne ? es[0] : nullptr), "new entry not linked in front of the old entries");
  }
  CHECK(unsigned(r->state.load()) == init, "result state %u, requested %u", unsigned(r->state.load()), init);
  for (unsigned k = 0; k < ne; ++k) if (es[k] != r) CHECK(unsigned(es[k]->state.load()) == ((states >> (2 * k)) & 3), "state of entry %u changed", k);
  // retired nodes
  std::vector<N> A(na), B(nb ? nb : 1);
  for (unsigned i = 0; i < na; ++i) A[i].next = i + 1 < na ? &A[i + 1] : nullptr;
  for (unsigned i = 0; i < nb; ++i) B[i].next = i + 1 < nb ? &B[i + 1] : nullptr;
  if (nb) list.abandon_retired_nodes(&B[0]);
  list.abandon_retired_nodes(&A[0]);
  auto* h = list.adopt_abandoned_retired_nodes();
  std::vector<deletable_object*> got; for (auto* p = h; p && got.size() <= na + nb; p = p->next) got.push_back(p);
  CHECK(got.size() == na + nb, "adopted %zu nodes, expected %u", got.size(), na + nb);
  for (unsigned i = 0; i < got.size() && i < na + nb; ++i) CHECK(got[i] == (i < na ? (deletable_object*)&A[i] : (deletable_object*)&B[i - na]), "adopted chain: wrong node at %u", i);
  CHECK(list.adopt_abandoned_retired_nodes() == nullptr, "abandoned list not empty after adopt");
  printf("%s (ne=%u states=0x%x init=%u allocs=%ld)\n", bad ? "violations found" : "all checks hold", ne, states, init, allocs);
  return bad ? 1 : 0;
}
