U = 'xenium/utils.hpp'
UNIT = dict(
  title='utils: is_power_of_two / find_last_bit_set / next_power_of_two for T = 64-bit unsigned (C05 capacity rounding)',
  properties=['C05'],
  drops='template parameter T (instantiated as uint64_t = std::size_t, the only instantiation reaching the queues); constexpr; '
        'next_power_of_two is verified modularly against the contracts of its two callees (contract stubs), and once more composed with the real callees',
  assumptions=[],
  sources=[
    dict(id='is_power_of_two', file=U, sig=r'constexpr bool is_power_of_two\(T val\)',
         c_sig='static _Bool real_is_power_of_two(uint64_t val)', must_fire={}),
    dict(id='find_last_bit_set', file=U, sig=r'constexpr unsigned find_last_bit_set\(T val\)',
         c_sig='static unsigned real_find_last_bit_set(uint64_t val)', must_fire={}),
    dict(id='next_power_of_two', file=U, sig=r'constexpr T next_power_of_two\(T val\)',
         c_sig='static uint64_t real_next_power_of_two(uint64_t val)',
         types={'T': 'uint64_t'},
         calls={'is_power_of_two': 'XV_IPOT', 'find_last_bit_set': 'XV_FLS'},
         must_fire={'cast': 1, 'call:is_power_of_two': 1, 'call:find_last_bit_set': 1}),
  ],
  runs=[
    dict(id='fls', entry='h_fls', unwindset=['real_find_last_bit_set.0:66'], cls='unbounded',
         note='the only loop shifts a 64-bit value to zero: at most 64 iterations, unwinding 66 with unwinding assertion is complete'),
    dict(id='ipot', entry='h_ipot', cls='unbounded'),
    dict(id='npot', entry='h_npot', cls='unbounded', note='callees replaced by their contracts'),
    dict(id='npot_real', entry='h_npot', defs={'XV_REAL_CALLEES': 1}, unwindset=['real_find_last_bit_set.0:66'], cls='unbounded',
         note='same obligations, composed with the real callees'),
    dict(id='npot_domain', entry='h_npot_domain', cls='unbounded'),
  ],
  obligations={
    'utilpow.fls.spec': dict(deciding=True, text='find_last_bit_set(v) = 1 + index of the highest set bit, 0 for v = 0, for all 64-bit v'),
    'utilpow.ipot.spec': dict(deciding=True, text='is_power_of_two(v) is true iff v has at most one bit set: true for 0 (!), true for 2^k, false otherwise, for all 64-bit v'),
    'utilpow.npot.spec': dict(deciding=True, text='for all v in [1, 2^63]: r = next_power_of_two(v) has exactly one bit set and v <= r < 2v (r - v < v)'),
    'utilpow.npot.idempotent': dict(deciding=True, text='next_power_of_two(v) == v iff v is a power of two (v in [1, 2^63])'),
    'utilpow.npot.zero': dict(deciding=False, text='documented corner: next_power_of_two(0) returns 0, which is not a power of two (callers must pass >= 1)'),
  },
  canaries=['fls.nonzero', 'fls.zero', 'ipot.zero', 'ipot.pow', 'ipot.nonpow', 'npot.pow', 'npot.nonpow', 'npot.max', 'npot.zero'],
)
