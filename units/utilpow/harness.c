/* unit utilpow - xenium::utils::{is_power_of_two, find_last_bit_set, next_power_of_two}, T = uint64_t.
 * Contracts and harnesses only; the function bodies come from lowered.h */
#include "xv.h"
int xv_threw; uint64_t xv_clock, xv_rmw_old; _Bool xv_cas_ok;

/* ---- specifications (loop free, no quantifier: the witness bit index comes from the fls contract) ---- */
static _Bool fls_spec(uint64_t v, unsigned r) {
  if (v == 0) return r == 0;
  return r >= 1 && r <= 64 && (v >> (r - 1)) == 1;       /* bit r-1 set, nothing above it */
}
/* exactly one bit set, witnessed by k */
static _Bool one_bit(uint64_t v, unsigned k) { return k < 64 && v == ((uint64_t)1 << k); }
/* is_power_of_two as written accepts 0 */
static _Bool ipot_spec(uint64_t v, unsigned k /* = fls(v) */, _Bool r) {
  if (v == 0) return r == 1;
  return r == one_bit(v, k - 1);
}

/* ---- contract stubs of the callees of next_power_of_two (proved for the real text by runs fls / ipot) ---- */
static unsigned fls_stub(uint64_t v) { unsigned r = nondet_uint(); XV_ASSUME(fls_spec(v, r)); return r; }
static _Bool ipot_stub(uint64_t v) { _Bool r = nondet_bool(); XV_ASSUME(ipot_spec(v, fls_stub(v), r)); return r; }
#ifdef XV_REAL_CALLEES
#define XV_IPOT real_is_power_of_two
#define XV_FLS real_find_last_bit_set
#else
#define XV_IPOT ipot_stub
#define XV_FLS fls_stub
#endif

uint64_t in_v;
#include "lowered.h"

void h_fls(void) {
  in_v = nondet_u64();
  unsigned r = real_find_last_bit_set(in_v);
  XV_OBL("utilpow.fls.spec", fls_spec(in_v, r));
  if (in_v != 0) XV_CANARY("fls.nonzero"); else XV_CANARY("fls.zero");
}

void h_ipot(void) {
  in_v = nondet_u64();
  _Bool r = real_is_power_of_two(in_v);
  unsigned k = fls_stub(in_v);
  XV_OBL("utilpow.ipot.spec", ipot_spec(in_v, k, r));
  /* independent second formulation with a free witness: r && v != 0  <=>  exists j: v == 2^j */
  unsigned j = nondet_uint();
  if (one_bit(in_v, j)) XV_OBL("utilpow.ipot.spec", r);
  if (in_v == 0) XV_CANARY("ipot.zero"); else if (r) XV_CANARY("ipot.pow"); else XV_CANARY("ipot.nonpow");
}

void h_npot(void) {
  in_v = nondet_u64();
  XV_ASSUME(in_v >= 1 && in_v <= ((uint64_t)1 << 63));
  uint64_t r = real_next_power_of_two(in_v);
  unsigned k = fls_stub(r);
  XV_OBL("utilpow.npot.spec", r != 0 && one_bit(r, k - 1));
  XV_OBL("utilpow.npot.spec", in_v <= r && r - in_v < in_v);
  unsigned kv = fls_stub(in_v);
  _Bool v_is_pow = one_bit(in_v, kv - 1);
  XV_OBL("utilpow.npot.idempotent", (r == in_v) == v_is_pow);
  if (v_is_pow) XV_CANARY("npot.pow"); else XV_CANARY("npot.nonpow");
  if (in_v == ((uint64_t)1 << 63)) XV_CANARY("npot.max");
}

void h_npot_domain(void) {
  uint64_t r = real_next_power_of_two(0);
  XV_OBL("utilpow.npot.zero", r == 0);
  XV_CANARY("npot.zero");
}
