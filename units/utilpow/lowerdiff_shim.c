/* lowering differential, C side of unit utilpow: the lowered text of xenium::utils::{is_power_of_two, find_last_bit_set,
 * next_power_of_two} (T = uint64_t, as in the unit) compiled natively.  No function body here: they all come from lowered.h. */
#include <stdint.h>
#include <stddef.h>
#include <stdbool.h>
#define XV_XASSERT(c) ((void)0)
/* next_power_of_two calls the real (lowered) callees, as run npot_real of the unit does */
#define XV_IPOT real_is_power_of_two
#define XV_FLS real_find_last_bit_set
#include "lowered.h"

int ld_is_power_of_two(uint64_t v) { return real_is_power_of_two(v); }
unsigned ld_find_last_bit_set(uint64_t v) { return real_find_last_bit_set(v); }
uint64_t ld_next_power_of_two(uint64_t v) { return real_next_power_of_two(v); }
