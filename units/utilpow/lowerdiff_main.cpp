// lowering differential, C++ side of unit utilpow: the real templates of xenium/utils.hpp instantiated with T = std::uint64_t
// (the instantiation the unit verifies) against the natively compiled lowered text.
#define NDEBUG
#include <xenium/utils.hpp>
#include "ld_common.hpp"
extern "C" {
int ld_is_power_of_two(std::uint64_t v);
unsigned ld_find_last_bit_set(std::uint64_t v);
std::uint64_t ld_next_power_of_two(std::uint64_t v);
}
using u64 = std::uint64_t;
namespace xu = xenium::utils;

int main() {
  const auto bnd = ld::boundary(64);
  {
    ld::report& r = ld::rep("utilpow", "is_power_of_two"); ld::rng g(1);
    auto one = [&](u64 v) { bool a = xu::is_power_of_two<u64>(v); int b = ld_is_power_of_two(v);
                            r.check(a == (b != 0), "val=%#" PRIx64 " real=%d lowered=%d", v, (int)a, b); };
    for (u64 v : bnd) one(v);
    for (u64 i = 0; i < ld::N_RANDOM; ++i) one(g.val());
  }
  {
    ld::report& r = ld::rep("utilpow", "find_last_bit_set"); ld::rng g(2);
    auto one = [&](u64 v) { unsigned a = xu::find_last_bit_set<u64>(v), b = ld_find_last_bit_set(v);
                            r.check(a == b, "val=%#" PRIx64 " real=%u lowered=%u", v, a, b); };
    for (u64 v : bnd) one(v);
    for (u64 i = 0; i < ld::N_RANDOM; ++i) one(g.val());
  }
  {
    // values above 2^63 that are no power of two shift by 64 (undefined in C and in C++): not compared
    ld::report& r = ld::rep("utilpow", "next_power_of_two"); ld::rng g(3);
    auto one = [&](u64 v) { if (v > (1ull << 63)) return;
                            u64 a = xu::next_power_of_two<u64>(v), b = ld_next_power_of_two(v);
                            r.check(a == b, "val=%#" PRIx64 " real=%#" PRIx64 " lowered=%#" PRIx64, v, a, b); };
    for (u64 v : bnd) one(v);
    while (r.cases < ld::N_RANDOM + bnd.size()) one(g.val());
  }
  return ld::result();
}
