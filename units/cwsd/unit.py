F = 'xenium/chase_work_stealing_deque.hpp'
COMMON = dict(members=['_items', '_bottom', '_top'],
              methods={'capacity': 'IT_capacity', 'can_grow': 'IT_can_grow', 'grow': 'IT_grow', 'put': 'IT_put', 'get': 'IT_get'},
              types={'std::intptr_t': 'intptr_t'})
UNIT = dict(
  title='chase_work_stealing_deque: try_push / try_pop / try_steal (C12)',
  properties=['C12'],
  drops='templates (value_type = opaque word); the container is replaced by a stub generated from the contracts proved in unit gca '
        '(get_entry injective modulo capacity, put/get round trip, grow preserves every live index); by-reference result parameter becomes a pointer',
  sources=[
    dict(COMMON, id='try_push', loop_free='cwsd.try_push.loop_free', file=F, sig=r'bool chase_work_stealing_deque<T, Policies...>::try_push\(value_type item\)',
         c_sig='static _Bool cwsd_try_push(struct cwsd* self, entry item)',
         must_fire={'A_LOAD': 2, 'A_STORE': 1, 'method:grow': 1, 'method:put': 1}),
    dict(COMMON, id='try_pop', loop_free='cwsd.try_pop.loop_free', file=F, sig=r'bool chase_work_stealing_deque<T, Policies...>::try_pop\(value_type& result\)',
         c_sig='static _Bool cwsd_try_pop(struct cwsd* self, entry* result_p)',
         subst=[(r'\bresult\b', '(*result_p)', 'result_ref')],
         must_fire={'A_LOAD': 3, 'A_STORE': 4, 'A_CAS': 1, 'method:get': 1}),
    dict(COMMON, id='try_steal', loop_free='cwsd.try_steal.loop_free', file=F, sig=r'bool chase_work_stealing_deque<T, Policies...>::try_steal\(value_type& result\)',
         c_sig='static _Bool cwsd_try_steal(struct cwsd* self, entry* result_p)',
         subst=[(r'\bresult\b', '(*result_p)', 'result_ref')],
         must_fire={'A_LOAD': 2, 'A_CAS': 1, 'method:get': 1}),
  ],
  runs=[
    dict(id='push', entry='h_push', cls='unbounded'),
    dict(id='pop', entry='h_pop', cls='unbounded'),
    dict(id='steal', entry='h_steal', cls='unbounded'),
    dict(id='steal_int', entry='h_steal_int', mode='INT', cls='unbounded'),
    dict(id='pop_int', entry='h_pop_int', mode='INT', cls='unbounded'),
  ],
  obligations={
    'cwsd.try_push.loop_free': dict(deciding=True, text='try_push contains no loop or goto: it finishes in a fixed number of own steps plus one call of grow (whose loop has a decreases clause, unit gca run grow_routeD)'),
    'cwsd.try_pop.loop_free': dict(deciding=True, text='try_pop contains no loop or goto (wait-free)'),
    'cwsd.try_steal.loop_free': dict(deciding=True, text='try_steal contains no loop or goto (wait-free)'),
    'cwsd.push.appends': dict(deciding=True, text='try_push: fails iff full and not growable (state unchanged); otherwise bottom+1, top unchanged, item stored at the old bottom, every live index keeps its item; grows exactly when full'),
    'cwsd.pop.newest': dict(deciding=True, text='try_pop: false iff empty (unchanged); otherwise returns the item at bottom-1, removes exactly it (LIFO), other live indices keep their items'),
    'cwsd.steal.oldest': dict(deciding=True, text='try_steal (no interference): false iff empty; otherwise returns the item at top and advances top by one'),
    'cwsd.steal.commit': dict(deciding=True, text='[INT] try_steal returns true only if its CAS moved top from t to t+1, and then the result is the item read for index t, read before the CAS; it never writes bottom'),
    'cwsd.pop.last_item': dict(deciding=True, text='[INT] try_pop: when a single item is left it is returned only if the CAS on top from t to t+1 succeeded; bottom is restored to a value equal to the final top on that path; with more than one item left top is not written'),
    'cwsd.pop.restores_bottom': dict(deciding=True, text='[INT] a try_pop that loses the race for the last item (CAS on top fails, or top has already passed the decremented bottom) stores bottom = the top value it observed last, which is the bottom it started from: the deque is left empty and canonical (bottom == top), so the next push is not swallowed'),
    'cwsd.sync.seq_cst': dict(deciding=True, text='sync precondition: pop\'s bottom store, pop\'s top load, steal\'s bottom load and steal\'s CAS are seq_cst; push\'s bottom store is release-or-stronger'),
  },
  canaries=['push.full_nogrow', 'push.grew', 'push.plain', 'pop.empty', 'pop.many', 'pop.last', 'steal.empty', 'steal.ok',
            'steal_int.true', 'steal_int.false_cas', 'pop_int.true_last', 'pop_int.lost_race', 'pop_int.many'],
)
