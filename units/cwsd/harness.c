/* unit cwsd - chase_work_stealing_deque operations (C12) */
#include <stdint.h>
#include <stddef.h>
/* monitors for the sync obligations */
extern int mon_bottom_store_order, mon_top_load_order, mon_bottom_load_order, mon_top_cas_order;
extern _Bool mon_top_cas_ok; extern int mon_top_cas_count, mon_bottom_store_count, mon_top_store_count;
extern uint64_t mon_top_cas_expected, mon_top_cas_desired, mon_get_clock, mon_cas_clock;
struct cwsd;
extern struct cwsd* mon_self;
static void mon_store(void* addr, uint64_t v, int o);
static void mon_load(void* addr, uint64_t v, int o);
static void mon_cas(void* addr, uint64_t e, uint64_t d, _Bool ok, int o);
#define XV_ON_STORE(addr, val, order) mon_store((void*)(addr), (uint64_t)(val), (order))
#define XV_ON_LOAD(addr, val, order) mon_load((void*)(addr), (uint64_t)(val), (order))
#define XV_ON_CAS(addr, e, d, ok, order) mon_cas((void*)(addr), (uint64_t)(e), (uint64_t)(d), (ok), (order))
#include "xv.h"
int xv_threw; uint64_t xv_clock, xv_rmw_old; _Bool xv_cas_ok;
typedef uintptr_t entry;

/* ---- container stub: contracts proved in unit gca ---- */
struct items { size_t cap; unsigned grows; _Bool fixed; };   /* fixed: policy::container = fixed_size_circular_array (contracts proved in unit fsca: can_grow() is false, grow() throws) */
struct cwsd { struct items _items; size_t _bottom; size_t _top; };
#define MAX_CAP ((size_t)1 << 31)
#define MAX_IDX ((size_t)1 << 62)   /* assumption: fewer than 2^62 pushes in the life of a deque (try_steal computes a signed difference) */
size_t g_j; entry g_v;          /* ghost: the cell of every index congruent to g_j (mod cap) holds g_v */
uint64_t get_clock; size_t get_idx; entry get_val; unsigned get_count;
static size_t IT_capacity(struct items s) { return s.cap; }
static _Bool IT_can_grow(struct items s) { return !s.fixed && s.cap < MAX_CAP; }
#define IT_capacity(s) ((s).cap)
#define IT_can_grow(s) (!(s).fixed && (s).cap < MAX_CAP)
static void it_put(struct items* s, size_t idx, entry v, int order) { if (((idx ^ g_j) & (s->cap - 1)) == 0) g_v = v; }
static entry it_get(struct items* s, size_t idx, int order) {
  get_clock = xv_clock; get_idx = idx; get_count++;
  entry r = (((idx ^ g_j) & (s->cap - 1)) == 0) ? g_v : nondet_uptr(); get_val = r; return r; }
_Bool grow_pre_ok = 1;
static void it_grow(struct items* s, size_t b, size_t t) {
  /* requires of gca_grow */
  if (!(!s->fixed && s->cap < MAX_CAP && b >= t && b - t == s->cap)) grow_pre_ok = 0;   /* the fixed container's grow() throws: calling it is a contract violation of try_push (it must report 'full') */
  if (!(g_j >= t && g_j < b)) g_v = nondet_uptr();   /* only live indices are preserved */
  s->cap *= 2; s->grows++;
}
#define IT_put(s, i, v, o) it_put(&(s), (i), (v), (o))
#define IT_get(s, i, o) it_get(&(s), (i), (o))
#define IT_grow(s, b, t) it_grow(&(s), (b), (t))

struct cwsd* mon_self;
int mon_bottom_store_order, mon_top_load_order, mon_bottom_load_order, mon_top_cas_order;
_Bool mon_top_cas_ok; int mon_top_cas_count, mon_bottom_store_count, mon_top_store_count; _Bool mon_bottom_store_weak, mon_first_bottom_store_done;
int mon_first_bottom_store_order; int mon_last_top_load_order; uint64_t mon_last_top_load_val;
uint64_t mon_top_cas_expected, mon_top_cas_desired, mon_cas_clock, mon_top_cas_seen;
static void mon_store(void* addr, uint64_t v, int o) {
  if (addr == (void*)&mon_self->_bottom) { if (!mon_first_bottom_store_done) { mon_first_bottom_store_done = 1; mon_first_bottom_store_order = o; } mon_bottom_store_count++; mon_bottom_store_order = o; }
  if (addr == (void*)&mon_self->_top) mon_top_store_count++;
}
static void mon_load(void* addr, uint64_t v, int o) {
  if (addr == (void*)&mon_self->_top) { mon_last_top_load_order = o; mon_last_top_load_val = v; }
  if (addr == (void*)&mon_self->_bottom) mon_bottom_load_order = o;
}
static void mon_cas(void* addr, uint64_t e, uint64_t d, _Bool ok, int o) {
  if (addr == (void*)&mon_self->_top) { mon_top_cas_count++; mon_top_cas_ok = ok; mon_top_cas_expected = e; mon_top_cas_desired = d; mon_top_cas_order = o; mon_cas_clock = xv_clock;
    mon_top_cas_seen = *(size_t*)addr;     /* the monitor runs before the cell is written: what a failing CAS hands back in `expected` */ }
}

#ifdef XV_INT
/* environment for a thief: the owner and other thieves may change top (only upwards), bottom (any), and cells */
_Bool env_on; _Bool env_is_owner_view; size_t env_b0;
void xv_env(void) {
  if (!env_on) return;
  if (env_is_owner_view) {         /* we are the owner: thieves only advance top */
    size_t nt = nondet_size(); if (nt >= mon_self->_top && nt <= env_b0) mon_self->_top = nt;   /* rely: a thief advances top only while top < the bottom it saw */
  } else {                          /* we are a thief: anything may happen to top, bottom and the cells */
    mon_self->_top = nondet_size(); mon_self->_bottom = nondet_size(); g_v = nondet_uptr();
    XV_ASSUME(mon_self->_top < MAX_IDX && mon_self->_bottom < MAX_IDX);
    if (nondet_bool() && !mon_self->_items.fixed && mon_self->_items.cap < MAX_CAP) mon_self->_items.cap *= 2;
  }
}
#endif
/* the template parameter policy::capacity (default 128): the functions under contract do not use it today; a text that does (e.g. a fast path that trusts it
   instead of asking the container) is verified for every value - the container chosen with policy::container may be smaller or larger than it */
size_t xv_policy_capacity;
#define capacity xv_policy_capacity
#include "lowered.h"
#undef capacity

static void havoc_state(struct cwsd* d) {
  unsigned c = nondet_uint(); XV_ASSUME(c >= 1 && c <= 31);
  d->_items.cap = (size_t)1 << c; d->_items.grows = 0; d->_items.fixed = nondet_bool();
  d->_bottom = nondet_size(); d->_top = nondet_size();
  XV_ASSUME(d->_top <= d->_bottom && d->_bottom - d->_top <= d->_items.cap && d->_bottom < MAX_IDX);
  g_j = nondet_size(); g_v = nondet_uptr(); mon_self = d; xv_policy_capacity = nondet_size();
  get_count = 0; mon_top_cas_count = 0; mon_bottom_store_count = 0; mon_top_store_count = 0; mon_first_bottom_store_done = 0; grow_pre_ok = 1;
}

void h_push(void) {
  struct cwsd d; havoc_state(&d);
  size_t b = d._bottom, t = d._top, cap = d._items.cap; entry item = nondet_uptr(), old = g_v;
  XV_ASSUME(g_j >= t && g_j <= b);          /* an arbitrary live index, or the slot about to be filled */
  _Bool r = cwsd_try_push(&d, item);
  _Bool full = (b - t == cap);
  if (full && (cap >= MAX_CAP || d._items.fixed)) {
    XV_OBL("cwsd.push.appends", !r && d._bottom == b && d._top == t && d._items.cap == cap && g_v == old && d._items.grows == 0 && grow_pre_ok);
    if (d._items.fixed) XV_CANARY("push.full_fixed"); else XV_CANARY("push.full_nogrow");
  } else {
    XV_OBL("cwsd.push.appends", r && d._bottom == b + 1 && d._top == t);
    XV_OBL("cwsd.push.appends", g_v == (g_j == b ? item : old));
    XV_OBL("cwsd.push.appends", d._items.cap == (full ? 2 * cap : cap) && grow_pre_ok);
    XV_OBL("cwsd.push.appends", d._bottom - d._top <= d._items.cap);
    XV_OBL("cwsd.sync.seq_cst", XV_IS_RELEASE(mon_bottom_store_order));
    if (full) XV_CANARY("push.grew"); else XV_CANARY("push.plain");
  }
}

void h_pop(void) {
  struct cwsd d; havoc_state(&d);
  size_t b = d._bottom, t = d._top, cap = d._items.cap; entry old = g_v, res = nondet_uptr(), res0 = res;
  XV_ASSUME(g_j >= t && g_j < b || b == t);
  _Bool r = cwsd_try_pop(&d, &res);
  if (b == t) {
    XV_OBL("cwsd.pop.newest", !r && d._bottom == b && d._top == t && res == res0);
    XV_CANARY("pop.empty");
  } else {
    XV_OBL("cwsd.pop.newest", r);
    if (g_j == b - 1) XV_OBL("cwsd.pop.newest", res == old);
    XV_OBL("cwsd.pop.newest", g_v == old && d._items.cap == cap);
    /* exactly one element removed: new size = old size - 1, and the live range is a sub-range of the old one minus index b-1 */
    XV_OBL("cwsd.pop.newest", d._bottom - d._top == b - t - 1);
    if (b - t > 1) { XV_OBL("cwsd.pop.newest", d._top == t && d._bottom == b - 1); XV_CANARY("pop.many"); }
    else { XV_OBL("cwsd.pop.newest", d._top == d._bottom); XV_CANARY("pop.last"); }
    XV_OBL("cwsd.sync.seq_cst", mon_first_bottom_store_order == mo_seq_cst && mon_last_top_load_order == mo_seq_cst);
  }
}

void h_steal(void) {
  struct cwsd d; havoc_state(&d);
  size_t b = d._bottom, t = d._top, cap = d._items.cap; entry old = g_v, res = nondet_uptr(), res0 = res;
  XV_ASSUME(g_j >= t && g_j < b || b == t);
  _Bool r = cwsd_try_steal(&d, &res);
  if (b == t) { XV_OBL("cwsd.steal.oldest", !r && d._bottom == b && d._top == t && res == res0); XV_CANARY("steal.empty"); }
  else {
    XV_OBL("cwsd.steal.oldest", r && d._top == t + 1 && d._bottom == b && g_v == old && d._items.cap == cap);
    if (g_j == t) XV_OBL("cwsd.steal.oldest", res == old);
    XV_OBL("cwsd.sync.seq_cst", mon_bottom_load_order == mo_seq_cst && mon_top_cas_order == mo_seq_cst);
    XV_CANARY("steal.ok");
  }
}

void h_size(void) {
  struct cwsd d; havoc_state(&d);
  size_t b = d._bottom, t = d._top;
  size_t n = cwsd_size(&d);
  XV_OBL("cwsd.size.spec", n == b - t && d._bottom == b && d._top == t && mon_bottom_store_count == 0 && mon_top_store_count == 0 && mon_top_cas_count == 0);
  if (n > 1) XV_CANARY("size.some");
}

void h_steal_int(void) {
#ifdef XV_INT
  struct cwsd d; havoc_state(&d); entry res = nondet_uptr(), res0 = res;
  env_on = 1; env_is_owner_view = 0;
  _Bool r = cwsd_try_steal(&d, &res);
  env_on = 0;
  if (r) {
    XV_OBL("cwsd.steal.commit", mon_top_cas_count == 1 && mon_top_cas_ok && mon_top_cas_desired == mon_top_cas_expected + 1);
    XV_OBL("cwsd.steal.commit", get_count == 1 && get_idx == mon_top_cas_expected && res == get_val && get_clock < mon_cas_clock);
    XV_OBL("cwsd.sync.seq_cst", mon_top_cas_order == mo_seq_cst && mon_bottom_load_order == mo_seq_cst);
    XV_CANARY("steal_int.true");
  } else {
    XV_OBL("cwsd.steal.commit", res == res0 && (mon_top_cas_count == 0 || !mon_top_cas_ok));
    if (mon_top_cas_count) XV_CANARY("steal_int.false_cas");
  }
  XV_OBL("cwsd.steal.commit", mon_bottom_store_count == 0 && mon_top_store_count == 0 && mon_top_cas_count <= 1);
#endif
}

void h_pop_int(void) {
#ifdef XV_INT
  struct cwsd d; havoc_state(&d); entry res = nondet_uptr(), res0 = res;
  size_t b = d._bottom, t0 = d._top;
  env_on = 1; env_is_owner_view = 1; env_b0 = b;
  _Bool r = cwsd_try_pop(&d, &res);
  env_on = 0;
  /* thieves can only have advanced top up to the bottom visible to them */
  if (r && mon_top_cas_count) {
    XV_OBL("cwsd.pop.last_item", mon_top_cas_ok && mon_top_cas_desired == mon_top_cas_expected + 1 && mon_top_cas_expected == b - 1);
    XV_OBL("cwsd.pop.last_item", res == get_val && get_idx == b - 1);
    XV_CANARY("pop_int.true_last");
  }
  if (r && !mon_top_cas_count) { XV_OBL("cwsd.pop.last_item", res == get_val && get_idx == b - 1 && d._bottom == b - 1);
    XV_OBL("cwsd.pop.last_item", mon_last_top_load_val < b - 1 && mon_last_top_load_order == mo_seq_cst && mon_first_bottom_store_order == mo_seq_cst); XV_CANARY("pop_int.many"); }
  if (!r && b != t0) { XV_OBL("cwsd.pop.last_item", res == res0 && (mon_top_cas_count == 0 || !mon_top_cas_ok));
    /* the owner lost its last item to a thief: it must put bottom back onto the top it observed (= the old bottom, thieves never pass it),
       otherwise bottom < top and the next push is swallowed */
    XV_OBL("cwsd.pop.restores_bottom", d._bottom == (mon_top_cas_count ? mon_top_cas_seen : mon_last_top_load_val) && d._bottom == b);
    XV_CANARY("pop_int.lost_race"); }
  XV_OBL("cwsd.pop.last_item", mon_top_store_count == 0 && mon_top_cas_count <= 1);
#endif
}
