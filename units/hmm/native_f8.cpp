// F8: harris_michael_hash_map with memoize_hash<true>: data_with_hash::greater_or_equal is a product order
// (hash >= h && key >= k), not a total order.  Single thread: erase the element under an iterator through
// another handle, then ++ skips live elements whose (hash, key) is incomparable with the erased one.
// build: g++ -std=c++17 -fno-access-control -I /repo native_f8.cpp -pthread ; exit 1 = defect reproduced, 0 = behaves
#include <xenium/harris_michael_hash_map.hpp>
#include <xenium/reclamation/generic_epoch_based.hpp>
#include <cstdio>
#include <set>
struct decreasing_hash { std::size_t operator()(int k) const { return (std::size_t)(100 - k) * 8; } };   // same bucket, hash decreasing in the key
template <bool Memo> int run() {
  using M = xenium::harris_michael_hash_map<int, int, xenium::policy::reclaimer<xenium::reclamation::epoch_based<>>,
    xenium::policy::buckets<8>, xenium::policy::hash<decreasing_hash>, xenium::policy::memoize_hash<Memo>>;
  M m; for (int k = 1; k <= 5; k++) m.emplace(k, k);
  auto it = m.begin(); int first = it->first;
  std::set<int> expected; for (auto j = m.begin(); j != m.end(); ++j) if (j->first != first) expected.insert(j->first);
  m.erase(first);                 // same thread, other handle: the element under the iterator is erased (marked and unlinked)
  ++it;                           // slow path: find(hash, key) of the erased element
  std::set<int> yielded; for (; it != m.end(); ++it) yielded.insert(it->first);
  printf("memoize_hash=%d: erased %d under the iterator; elements that stayed in the map:", (int)Memo, first);
  for (int k : expected) printf(" %d", k);
  printf("; yielded after ++:"); for (int k : yielded) printf(" %d", k); puts("");
  return yielded == expected ? 0 : 1;
}
int main() {
  int a = run<false>(), b = run<true>();
  if (a || b) { puts("VIOLATION: the traversal skipped elements that were in the map during the whole traversal"); return 1; }
  puts("ok"); return 0;
}
