// native replay for the SEQ obligations of unit hmm: builds the state cbmc found (in_* inputs) on the REAL harris_michael_hash_map
// (nodes allocated and linked by hand, marks set, iterator assembled from raw parts), runs the real operation and compares with
// the sequential specification.  exit 0 = property holds on this input, 1 = violation reproduced, 2 = cannot represent.
#include <xenium/harris_michael_hash_map.hpp>
#include <xenium/reclamation/generic_epoch_based.hpp>
#include <cstdio>
#include <cstdlib>
#include <cstring>
#include <map>
#include <string>
#include <vector>
static std::map<std::string, unsigned long long> A;
static unsigned long long arg(const std::string& k, unsigned long long d = 0) { auto it = A.find(k); return it == A.end() ? d : it->second; }
static unsigned long long arr(const char* name, unsigned i) { return arg(std::string(name) + "[" + std::to_string(i) + "]"); }
static std::map<unsigned, std::size_t> g_hash;
struct table_hash { std::size_t operator()(unsigned k) const { auto it = g_hash.find(k); return it == g_hash.end() ? 0 : it->second; } };

template <unsigned NB, bool MEMO> int run(const std::string& op) {
  using M = xenium::harris_michael_hash_map<unsigned, unsigned long, xenium::policy::reclaimer<xenium::reclamation::epoch_based<>>,
    xenium::policy::buckets<NB>, xenium::policy::hash<table_hash>, xenium::policy::memoize_hash<MEMO>>;
  using node = typename M::node; using marked_ptr = typename M::marked_ptr; using guard_ptr = typename M::guard_ptr;
  const unsigned L = arg("in_cfg_l"), NP = L + 3, IX = L, IY = L + 1;
  std::vector<unsigned> n(NB), lo(NB), hi(NB); unsigned total = 0;
  for (unsigned b = 0; b < NB; b++) { n[b] = arr("in_n", b); lo[b] = total; total += n[b]; hi[b] = total; }
  if (total > L) { puts("inconsistent inputs"); return 2; }
  std::vector<unsigned> key(NP); std::vector<unsigned long> val(NP); std::vector<bool> mark(NP);
  for (unsigned i = 0; i < NP; i++) { key[i] = arr("in_key", i); val[i] = arr("in_val", i); mark[i] = arr("in_mark", i); g_hash[key[i]] = arr("in_hash", i); }
  unsigned k = arg("in_k"); if (A.count("in_kh")) g_hash[k] = arg("in_kh");
  for (unsigned b = 0; b < NB; b++) for (unsigned i = lo[b]; i < hi[b]; i++)
    if (table_hash{}(key[i]) % NB != b) { puts("inconsistent inputs (bucket)"); return 2; }
  M& m = *new M;     // never destroyed: the destructor requires a quiescent map without marked nodes
  std::vector<node*> nd(NP, nullptr);
  for (unsigned i = 0; i < L + 2; i++) nd[i] = new node(table_hash{}(key[i]), key[i], val[i]);
  for (unsigned b = 0; b < NB; b++) {
    m.buckets[b].store(marked_ptr(n[b] ? nd[lo[b]] : nullptr));
    for (unsigned i = lo[b]; i < hi[b]; i++) nd[i]->next.store(marked_ptr(i + 1 < hi[b] ? nd[i + 1] : nullptr, mark[i] ? 1 : 0));
  }
  for (unsigned x = 0; x < 2; x++) {      // the two unlinked, marked nodes; next may still point into a list
    unsigned long long w = arr("in_xnext", x); unsigned idx = (unsigned)(w >> 1);
    nd[IX + x]->next.store(marked_ptr(idx >= 1 && idx <= total ? nd[idx - 1] : nullptr, 1));
  }
  auto live_idx = [&](unsigned kk) -> int { for (unsigned i = 0; i < total; i++) if (!mark[i] && key[i] == kk) return (int)i; return -1; };
  auto first_of_later = [&](unsigned b) -> node* { for (unsigned x = b + 1; x < NB; x++) if (n[x]) return nd[lo[x]]; return nullptr; };
  auto first_unmarked = [&](unsigned b, unsigned from) -> unsigned { for (unsigned i = from; i < hi[b]; i++) if (!mark[i]) return i; return hi[b]; };
  auto name = [&](node* p) -> std::string { if (!p) return "end"; for (unsigned i = 0; i < NP; i++) if (nd[i] == p) return "node" + std::to_string(i) + "(key " + std::to_string(key[i]) + ")"; return "new node"; };
  int bad = 0;
  if (op == "find") {
    bool live = live_idx(k) >= 0;
    if (arg("in_which") == 0) { bool r = m.contains(k); if (r != live) { printf("contains(%u) = %d, but the key is %s\n", k, r, live ? "live" : "absent"); bad = 1; } }
    else { auto it = m.find(k); bool r = it != m.end(); if (r != live || (r && it->first != k)) { printf("find(%u) %s, but the key is %s\n", k, r ? "found" : "end", live ? "live" : "absent"); bad = 1; } }
  } else if (op == "insert") {
    unsigned long v = arg("in_v"); bool present = live_idx(k) >= 0; unsigned w = arg("in_which"); bool r = !present;
    if (w == 0) r = m.emplace(k, v); else if (w == 1) r = m.emplace_or_get(k, v).second; else if (w == 2) r = m.get_or_emplace(k, v).second;
    else if (w == 3) r = m.get_or_emplace_lazy(k, [&] { return v; }).second; else { auto acc = m[k]; (void)acc; v = 0; }
    if (r != !present) { printf("insertion of %u returned %d, key was %s\n", k, r, present ? "present" : "absent"); bad = 1; }
    auto it = m.find(k);
    if (it == m.end()) { printf("key %u not found after insertion\n", k); bad = 1; }
    else if (it->second != (present ? val[live_idx(k)] : v)) { printf("value of %u is %lu\n", k, it->second); bad = 1; }
    for (unsigned i = 0; i < total; i++) if (!mark[i] && !m.contains(key[i])) { printf("live key %u lost\n", key[i]); bad = 1; }
  } else if (op == "erase_key") {
    bool present = live_idx(k) >= 0; bool r = m.erase(k);
    if (r != present) { printf("erase(%u) returned %d, key was %s\n", k, r, present ? "present" : "absent"); bad = 1; }
    if (m.contains(k)) { printf("key %u still there after erase\n", k); bad = 1; }
    for (unsigned i = 0; i < total; i++) if (!mark[i] && key[i] != k && !m.contains(key[i])) { printf("live key %u lost\n", key[i]); bad = 1; }
  } else if (op == "inc" || op == "erase_it") {
    unsigned b = arg("in_ib"), icur = arg("in_icur"), c = arg("in_ic"), p = arg("in_ip"), isave = arg("in_isave"), s = arg("in_is");
    if (b >= NB) return 2;
    node* cur = icur == 0 ? nd[c] : nd[IX]; unsigned t = icur == 0 ? c + 1 : p;
    if (icur == 0 && !(c >= lo[b] && c < hi[b])) return 2;
    typename M::find_info info{&m.buckets[b]};
    bool direct = false;
    if (isave == 0) direct = icur == 0 && c == lo[b];
    else if (isave == 1) { info.prev = &nd[s]->next; info.save = guard_ptr(marked_ptr(nd[s])); direct = icur == 0 && s + 1 == c && !mark[s]; }
    else { info.prev = &nd[IY]->next; info.save = guard_ptr(marked_ptr(nd[IY])); }
    info.cur = guard_ptr(marked_ptr(cur));
    typename M::iterator it(&m, b, std::move(info));
    node* expected; node* got;
    if (op == "inc") {
      if (icur == 0 && !mark[c]) expected = c + 1 < hi[b] ? nd[c + 1] : first_of_later(b);
      else { unsigned q = first_unmarked(b, t); expected = q < hi[b] ? nd[q] : first_of_later(b); }
      ++it; got = it.info.cur.get();
    } else {
      if (direct) expected = c + 1 < hi[b] ? nd[c + 1] : first_of_later(b);
      else { unsigned q = first_unmarked(b, t); expected = q < hi[b] ? nd[q] : first_of_later(b); }
      auto r = m.erase(std::move(it)); got = r.info.cur.get();
      if (cur->next.load().mark() != 1) { puts("erased node is not marked"); bad = 1; }
    }
    if (got != expected) {
      printf("%s from %s in bucket %u: iterator now at %s, specification: %s\n", op == "inc" ? "++" : "erase(iterator)", name(cur).c_str(), b, name(got).c_str(), name(expected).c_str());
      bad = 1;
    }
  } else { printf("unknown op %s\n", op.c_str()); return 2; }
  puts(bad ? "VIOLATION reproduced on the real class" : "property holds on this input");
  return bad;
}
int main(int argc, char** argv) {
  std::string op = "inc";
  for (int i = 1; i < argc; ++i) {
    char* eq = strchr(argv[i], '='); if (!eq) continue; std::string k(argv[i], eq - argv[i]); std::string v(eq + 1);
    if (k == "op") { op = v; continue; }
    size_t br = k.find('['); if (br != std::string::npos) { size_t e = k.find_first_not_of("0123456789", br + 1); k = k.substr(0, br + 1) + k.substr(br + 1, e - br - 1) + "]"; }
    if (v == "TRUE") A[k] = 1; else if (v == "FALSE") A[k] = 0; else if (!v.empty() && (isdigit(v[0]))) A[k] = strtoull(v.c_str(), 0, 0);
  }
  unsigned nb = arg("in_cfg_nb", 2), memo = arg("in_cfg_memo");
  if (nb == 1) return memo ? run<1, true>(op) : run<1, false>(op);
  if (nb == 2) return memo ? run<2, true>(op) : run<2, false>(op);
  printf("bucket count %u not instantiated\n", nb); return 2;
}
