F = 'xenium/harris_michael_hash_map.hpp'
Q = r'harris_michael_hash_map<Key, Value, Policies\.\.\.>::'

# unit-local mechanical rewrites shared by all member functions of the map / iterator
TYPES = [
  (r'\bguard_ptr (\w+);', r'guard_t \1 = 0;', 'guard_decl'),
  (r'\bguard_ptr (\w+) = ', r'guard_t \1 = ', 'guard_copy'),
  (r'\bguard_ptr (\w+)\(([^;]*)\);', r'guard_t \1 = G_from_raw(\2);', 'guard_from_raw'),
  (r'\bmarked_ptr (\w+) = ', r'mptr \1 = ', 'mptr_decl'),
  (r'\bconcurrent_ptr\*', 'mptr*', 'cptr'),
  (r'\bnode\* n = ', 'mptr n = ', 'node_ptr'),
  (r'\bbackoff backoff;', 'int backoff = 0;', 'backoff_decl'),
  (r'\bbackoff\(\);', 'XV_BACKOFF();', 'backoff_call'),
  (r'\bKey\b', 'kkey_t', 'Key'),
  (r'\bhash\{\}\(', 'HASH_FN(', 'hash_fn'),
  (r'\bmap_to_bucket\{\}\(', 'MAP_TO_BUCKET(', 'map_to_bucket'),
  (r'\bfind_info info\{([^}]*)\};', r'struct find_info info = FI_INIT(\1);', 'find_info_init'),
  (r'std::swap\(', 'XV_SWAP(', 'swap'),
  (r'\bdelete n;', 'XV_DELETE(n);', 'delete'),
  (r'return \{([^;]*), (true|false)\};', r'return XV_PAIR(\1, \2);', 'pair'),
  (r'(?<![\w.])\*info\.prev\b', '(*XV_PREV(info))', 'prev_deref'),
  (r'(?<![\w.])info\.prev->', 'XV_PREV(info)->', 'prev_arrow'),
  (r'\bpos\.info\.prev->', 'XV_PREV(pos.info)->', 'pos_prev_arrow'),
]
METHODS = {'acquire_if_equal': 'G_acquire_if_equal', 'acquire': 'G_acquire', 'reclaim': 'G_reclaim', 'reset': 'G_reset',
           'get': 'MP_get', 'mark': 'MP_mark', 'greater_or_equal': 'DATA_greater_or_equal', 'get_hash': 'DATA_get_hash',
           'find': 'IT_map_find', 'move_to_next_bucket': 'IT_move_to_next_bucket'}
CALLS = {'marked_ptr': 'MP_make', 'guard_ptr': 'G_from_raw', 'iterator': 'IT_make', 'accessor': 'ACC_make'}
DEREF = {'info.cur': 'GDEREF', 'info.save': 'GDEREF', 'pos.info.cur': 'GDEREF', 'n': 'NDEREF'}
SELF = {'find': 'HMM_FIND', 'end': 'hmm_end', 'emplace_or_get': 'hmm_emplace_or_get', 'get_or_emplace_lazy': 'hmm_get_or_emplace_lazy',
        'do_get_or_emplace_lazy': 'hmm_do_get_or_emplace_lazy', 'move_to_next_bucket': 'it_move_to_next_bucket'}
MAP = dict(file=F, subst=TYPES, methods=METHODS, calls=CALLS, deref=DEREF, self_calls=SELF, members=['buckets'])
IT = dict(file=F, subst=TYPES, methods=METHODS, calls=CALLS, deref=DEREF, self_calls=SELF, members=['info', 'map', 'bucket'])
INFO_REF = [(r'\A\s*\{', '{\n#define info (*info_p)\n', 'info_ref'), (r'\}\s*\Z', '\n#undef info\n}', 'info_unref')]

UNIT = dict(
  loop_obligation={'FIND': 'hmm.find.commit', 'INS': 'hmm.insert.commit', 'LAZY': 'hmm.insert.commit', 'ERK': 'hmm.erase.commit', 'ERI': 'hmm.iter.erase.commit'},
  title='harris_michael_hash_map: order predicates, find / insert / erase, iterator (C08, C09)',
  properties=['C08', 'C09'],
  drops='templates (Key = 32-bit word with the built-in total order, Value = opaque word, hash = uninterpreted function of the key, '
        'map_to_bucket = utils::modulo lowered from utils.hpp); marked_ptr/guard_ptr/node* are words (node index * 2 | mark); '
        'guard_ptr operations are contract stubs; lambdas are lowered as separate functions, by-reference captures become globals; '
        'std::pair<iterator,bool> is a C struct; backoff is a no-op; number of buckets is the shape NB',
  assumptions=['guard_ptr contract (per reclaimer, proved elsewhere): acquire = atomic snapshot + protect; acquire_if_equal(p, e) succeeds iff p == e; '
               'a guarded node is never freed; reclaim = retire',
               'Key: operator>= is a total order consistent with operator== (modelled by unsigned integers); hash is a function of the key',
               'allocation (new node) does not throw'],
  sources=[],
  runs=[], obligations={}, canaries=[],
)
S = UNIT['sources']
# ---- ordering helpers -----------------------------------------------------------------------------------------------------------
S += [
  dict(id='dwoh_get_hash', file=F, sig=r'hash_t get_hash\(\) const', which=0, c_sig='static hash_t dwoh_get_hash(const struct data_t* self)',
       subst=TYPES, members=['value'], must_fire={'subst:hash_fn': 1}),
  dict(id='dwoh_ge', file=F, sig=r'bool greater_or_equal\(hash_t\s*\w*\s*, const Key&\s*\w*\s*\) const', which=0,
       c_sig='static _Bool dwoh_greater_or_equal(const struct data_t* self, hash_t h, kkey_t key)', members=['value', 'hash'], must_fire={'member:value': 1}),
  dict(id='dwh_ctor', file=F, sig=r'explicit data_with_hash\(construct_without_hash, Args&&\.\.\. args\)',
       c_sig='static void dwh_ctor_without_hash(struct data_t* self)', subst=[(r'harris_michael_hash_map::hash\{\}\(', 'HASH_FN(', 'hash_fn')],
       members=['value', 'hash'], must_fire={'subst:hash_fn': 1, 'member:hash': 1}),
  dict(id='dwh_get_hash', file=F, sig=r'hash_t get_hash\(\) const', which=1, c_sig='static hash_t dwh_get_hash(const struct data_t* self)',
       members=['value', 'hash'], must_fire={'member:hash': 1}),
  dict(id='dwh_ge', file=F, sig=r'bool greater_or_equal\(hash_t\s*\w*\s*, const Key&\s*\w*\s*\) const', which=1,
       c_sig='static _Bool dwh_greater_or_equal(const struct data_t* self, hash_t h, kkey_t key)', members=['value', 'hash'], must_fire={'member:value': 1}),
  dict(id='modulo', file='xenium/utils.hpp', sig=r'T operator\(\)\(T a, T b\)', c_sig='static size_t utils_modulo(size_t a, size_t b)', must_fire={}),
]
# ---- map -------------------------------------------------------------------------------------------------------------------------
S += [
  dict(MAP, id='find', sig=r'bool ' + Q + r'find\(hash_t hash,\s*const Key& key,\s*std::size_t bucket,\s*find_info& info,\s*backoff& backoff\)',
       c_sig='static _Bool hmm_find(struct hmm* self, hash_t hash, kkey_t key, size_t bucket, struct find_info* info_p, int backoff)',
       post_subst=INFO_REF + [(r'\bgoto retry;', 'XV_GOTO_RETRY;', 'goto_retry')],
       must_fire={'method:acquire_if_equal': 1, 'A_LOAD': 4, 'A_CASW': 1, 'method:reclaim': 1, 'method:greater_or_equal': 1, 'subst:swap': 1,
                  'subst:goto_retry': 4, 'subst:prev_deref': 1, 'subst:prev_arrow': 3, 'deref': 5}),
]
S += [
  dict(MAP, id='contains', sig=r'bool ' + Q + r'contains\(const Key& key\)',
       c_sig='static _Bool hmm_contains(struct hmm* self, kkey_t key)',
       must_fire={'subst:hash_fn': 1, 'subst:map_to_bucket': 1, 'subst:find_info_init': 1, 'self_call:find': 1}),
  dict(MAP, id='find_key', sig=r'auto ' + Q + r'find\(const Key& key\) -> iterator',
       c_sig='static struct iterator hmm_find_key(struct hmm* self, kkey_t key)',
       must_fire={'subst:hash_fn': 1, 'subst:map_to_bucket': 1, 'subst:find_info_init': 1, 'self_call:find': 1, 'call:iterator': 1, 'self_call:end': 1}),
  dict(MAP, id='emplace', sig=r'bool ' + Q + r'emplace\(Args&&\.\.\. args\)',
       c_sig='static _Bool hmm_emplace(struct hmm* self, kkey_t key, val_t value)',
       post_subst=[(r'\(args\)\.\.\.', 'key, value', 'args')],
       must_fire={'self_call:emplace_or_get': 1, 'subst:args': 1}),
  dict(MAP, id='emplace_or_get', sig=r'auto ' + Q + r'emplace_or_get\(Args&&\.\.\. args\) -> std::pair<iterator, bool>',
       c_sig='static struct pair_ib hmm_emplace_or_get(struct hmm* self, kkey_t key, val_t value)',
       pre_subst=[(r'new node\(construct_without_hash\{\}, std::forward<Args>\(args\)\.\.\.\)', 'XV_NEW_NODE_WITHOUT_HASH(key, value)', 'new_node')],
       must_fire={'subst:new_node': 1, 'self_call:find': 1, 'A_STORE': 1, 'A_CASW': 1, 'subst:delete': 1, 'subst:pair': 2, 'subst:guard_from_raw': 1,
                  'subst:prev_arrow': 1, 'method:get_hash': 1}),
  dict(MAP, id='goe_lambda', sig=r'\[&args\.\.\.\]\(hash_t hash, Key key\)',
       c_sig='static mptr hmm_goe_node_factory(hash_t hash, kkey_t key)',
       pre_subst=[(r'new node\(hash,\s*std::piecewise_construct,\s*std::forward_as_tuple\(std::move\(key\)\),\s*std::forward_as_tuple\(std::forward<Args>\(args\)\.\.\.\)\)',
                   'XV_NEW_NODE(hash, key, xv_cap_args)', 'new_node')],
       must_fire={'subst:new_node': 1}),
  dict(MAP, id='get_or_emplace', sig=r'auto ' + Q + r'get_or_emplace\(Key key, Args&&\.\.\. args\)\s*-> std::pair<iterator, bool>',
       c_sig='static struct pair_ib hmm_get_or_emplace(struct hmm* self, kkey_t key, val_t args)',
       pre_subst=[(r'\[&args\.\.\.\]\(hash_t hash, Key key\)\s*\{.*?\}', 'XV_CAPTURE(args, hmm_goe_node_factory)', 'lambda')],
       must_fire={'subst:lambda': 1, 'self_call:do_get_or_emplace_lazy': 1}),
  dict(MAP, id='goel_lambda', sig=r'\[&value_factory\]\(hash_t hash, Key key\)',
       c_sig='static mptr hmm_goel_node_factory(hash_t hash, kkey_t key)',
       pre_subst=[(r'new node\(hash, std::move\(key\), value_factory\(\)\)', 'XV_NEW_NODE(hash, key, xv_cap_value_factory())', 'new_node')],
       must_fire={'subst:new_node': 1}),
  dict(MAP, id='get_or_emplace_lazy', sig=r'auto ' + Q + r'get_or_emplace_lazy\(Key key, Factory value_factory\)\s*-> std::pair<iterator, bool>',
       c_sig='static struct pair_ib hmm_get_or_emplace_lazy(struct hmm* self, kkey_t key, val_t (*value_factory)(void))',
       pre_subst=[(r'\[&value_factory\]\(hash_t hash, Key key\)\s*\{.*?\}', 'XV_CAPTURE(value_factory, hmm_goel_node_factory)', 'lambda')],
       must_fire={'subst:lambda': 1, 'self_call:do_get_or_emplace_lazy': 1}),
  dict(MAP, id='do_get_or_emplace_lazy', sig=r'auto ' + Q + r'do_get_or_emplace_lazy\(Key key, Factory node_factory\)\s*-> std::pair<iterator, bool>',
       c_sig='static struct pair_ib hmm_do_get_or_emplace_lazy(struct hmm* self, kkey_t key, mptr (*node_factory)(hash_t, kkey_t))',
       must_fire={'self_call:find': 1, 'A_STORE': 1, 'A_CASW': 1, 'subst:delete': 1, 'subst:pair': 2, 'call:guard_ptr': 1, 'subst:prev_arrow': 1,
                  'method:reset': 1, 'subst:hash_fn': 1}),
  dict(MAP, id='default_value_lambda', sig=r'\[\]\(\)', c_sig='static val_t hmm_default_value_factory(void)',
       subst=[(r'\bValue\{\}', 'XV_DEFAULT_VALUE', 'default_value')], must_fire={'subst:default_value': 1}),
  dict(MAP, id='subscript', sig=r'auto ' + Q + r'operator\[\]\(const Key& key\) -> accessor',
       c_sig='static struct accessor hmm_subscript(struct hmm* self, kkey_t key)',
       pre_subst=[(r'\[\]\(\)\s*\{ return Value\{\}; \}', 'hmm_default_value_factory', 'lambda')],
       must_fire={'subst:lambda': 1, 'self_call:get_or_emplace_lazy': 1, 'call:accessor': 1}),
  dict(MAP, id='erase_key', sig=r'bool ' + Q + r'erase\(const Key& key\)',
       c_sig='static _Bool hmm_erase_key(struct hmm* self, kkey_t key)',
       must_fire={'self_call:find': 2, 'A_CASW': 2, 'method:reclaim': 1, 'call:marked_ptr': 1, 'subst:prev_arrow': 1}),
  dict(MAP, id='erase_it', sig=r'auto ' + Q + r'erase\(iterator pos\) -> iterator',
       c_sig='static struct iterator hmm_erase_it(struct hmm* self, struct iterator pos)',
       must_fire={'self_call:find': 1, 'A_LOAD': 1, 'A_CASW': 2, 'method:reclaim': 1, 'call:marked_ptr': 1, 'subst:pos_prev_arrow': 1,
                  'subst:guard_from_raw': 1, 'method:move_to_next_bucket': 1, 'method:get_hash': 1}),
  dict(MAP, id='begin', sig=r'auto ' + Q + r'begin\(\) -> iterator', c_sig='static struct iterator hmm_begin(struct hmm* self)', must_fire={'call:iterator': 1}),
  dict(MAP, id='end', sig=r'auto ' + Q + r'end\(\) -> iterator', c_sig='static struct iterator hmm_end(struct hmm* self)', must_fire={'call:iterator': 1}),
]
# ---- the same texts once more with their retry loops cut by invariants, for the INT (interference) runs ------------------------------
SELF_ABS = dict(SELF, find='HMM_FIND_ABS')
S += [
  dict(MAP, id='find_int', sig=r'bool ' + Q + r'find\(hash_t hash,\s*const Key& key,\s*std::size_t bucket,\s*find_info& info,\s*backoff& backoff\)',
       c_sig='static _Bool hmm_find_int(struct hmm* self, hash_t hash, kkey_t key, size_t bucket, struct find_info* info_p, int backoff)',
       cut_loops={0: 'FIND'}, post_subst=INFO_REF + [(r'\bgoto retry;', 'XV_RETRY_CUT;', 'goto_retry')],
       must_fire={'method:acquire_if_equal': 1, 'A_LOAD': 4, 'A_CASW': 1, 'method:reclaim': 1, 'subst:goto_retry': 4, 'cut_loop': 1}),
  dict(MAP, id='emplace_or_get_int', sig=r'auto ' + Q + r'emplace_or_get\(Args&&\.\.\. args\) -> std::pair<iterator, bool>',
       c_sig='static struct pair_ib hmm_emplace_or_get_int(struct hmm* self, kkey_t key, val_t value)', self_calls=SELF_ABS, cut_loops={0: 'INS'},
       pre_subst=[(r'new node\(construct_without_hash\{\}, std::forward<Args>\(args\)\.\.\.\)', 'XV_NEW_NODE_WITHOUT_HASH(key, value)', 'new_node')],
       must_fire={'self_call:find': 1, 'A_STORE': 1, 'A_CASW': 1, 'subst:delete': 1, 'cut_loop': 1}),
  dict(MAP, id='do_get_or_emplace_lazy_int', sig=r'auto ' + Q + r'do_get_or_emplace_lazy\(Key key, Factory node_factory\)\s*-> std::pair<iterator, bool>',
       c_sig='static struct pair_ib hmm_do_get_or_emplace_lazy_int(struct hmm* self, kkey_t key, mptr (*node_factory)(hash_t, kkey_t))',
       self_calls=SELF_ABS, cut_loops={0: 'LAZY'}, must_fire={'self_call:find': 1, 'A_STORE': 1, 'A_CASW': 1, 'subst:delete': 1, 'cut_loop': 1}),
  dict(MAP, id='erase_key_int', sig=r'bool ' + Q + r'erase\(const Key& key\)',
       c_sig='static _Bool hmm_erase_key_int(struct hmm* self, kkey_t key)', self_calls=SELF_ABS, cut_loops={0: 'ERK'},
       must_fire={'self_call:find': 2, 'A_CASW': 2, 'method:reclaim': 1, 'cut_loop': 1}),
  dict(MAP, id='erase_it_int', sig=r'auto ' + Q + r'erase\(iterator pos\) -> iterator',
       c_sig='static struct iterator hmm_erase_it_int(struct hmm* self, struct iterator pos)', self_calls=SELF_ABS, cut_loops={0: 'ERI'},
       must_fire={'self_call:find': 1, 'A_LOAD': 1, 'A_CASW': 2, 'method:reclaim': 1, 'cut_loop': 1}),
]
# ---- iterator ------------------------------------------------------------------------------------------------------------------------
S += [
  dict(IT, id='it_ctor1', sig=r'explicit iterator\(harris_michael_hash_map\* map\)', ctor=True,
       c_sig='static void it_ctor1(struct iterator* self, struct hmm* map)', must_fire={'ctor_init': 2}),
  dict(IT, id='it_ctor2', sig=r'explicit iterator\(harris_michael_hash_map\* map, std::size_t bucket\)', ctor=True,
       c_sig='static void it_ctor2(struct iterator* self, struct hmm* map, size_t bucket)',
       must_fire={'ctor_init': 2, 'method:acquire': 1, 'self_call:move_to_next_bucket': 1}),
  dict(IT, id='it_ctor3', sig=r'explicit iterator\(harris_michael_hash_map\* map, std::size_t bucket, find_info&& info\)', ctor=True,
       c_sig='static void it_ctor3(struct iterator* self, struct hmm* map, size_t bucket, struct find_info info)', must_fire={'ctor_init': 3}),
  dict(IT, id='it_move_to_next_bucket', sig=r'void move_to_next_bucket\(\)',
       c_sig='static void it_move_to_next_bucket(struct iterator* self)', must_fire={'method:acquire': 1, 'method:reset': 1}),
  dict(IT, id='it_inc', sig=r'iterator& operator\+\+\(\)',
       c_sig='static struct iterator* it_inc(struct iterator* self)',
       post_subst=[(r'return \(\*self\);', 'return self;', 'return_this')],
       must_fire={'subst:return_this': 1, 'method:acquire_if_equal': 1, 'method:find': 1, 'self_call:move_to_next_bucket': 1, 'method:get_hash': 1}),
]
# operator++(int), reset, operator==, and the four special member functions (`= default` in the pinned text: member-wise, which for this unit's
# word-modelled guards is the plain struct copy; a user-provided body is lowered and checked against that contract by run special)
IT_LOCALS = [(r'\biterator (\w+) = \*this;', r'struct iterator \1 = (*self);', 'iter_copy_this'), (r'\biterator (\w+)\(\*this\);', r'struct iterator \1 = (*self);', 'iter_copy_this'),
             (r'\biterator (\w+)\(([^;()]*)\);', r'struct iterator \1 = IT_make(\2);', 'iter_local_ctor'),
             (r'\+\+\(\*this\);|\+\+\*this;|\boperator\+\+\(\);', 'it_inc(self);', 'pre_inc_this'),
             (r'\bfind_info (\w+)\(([^;]+)\);', r'struct find_info \1 = \2;', 'find_info_copy')]
PARAM = [(r'\b(rhs|o|that|src|it|x)\b(?=\.|\)|;)', 'other', 'param_name')]
OTHER = [(r'(?<![\w.>])other\b', '(*other_p)', 'ref:other'), (r'return \(\*self\);', 'return self;', 'return_this')]
PN = r'\s*(?:other|rhs|o|that|src|it|x)?'
S += [
  dict(IT, id='it_postinc', sig=r'iterator operator\+\+\(int\)', c_sig='static struct iterator it_postinc(struct iterator* self)', pre_subst=IT_LOCALS,
       must_fire={'subst:iter_copy_this': 1, 'subst:pre_inc_this': 1}),
  dict(IT, id='it_reset', sig=r'void reset\(\)', which=0, c_sig='static void it_reset(struct iterator* self)', must_fire={'method:reset': 2, 'member:bucket': 1}),
  dict(IT, id='it_eq', sig=r'bool operator==\(const iterator& other\) const', c_sig='static _Bool it_eq(const struct iterator* self, const struct iterator* other_p)',
       post_subst=OTHER, must_fire={'method:get': 2}),
  dict(IT, id='it_ne', sig=r'bool operator!=\(const iterator& other\) const', c_sig='static _Bool it_ne(const struct iterator* self, const struct iterator* other_p)',
       pre_subst=[(r'\(\*this == other\)', 'it_eq(self, other_p)', 'eq_call')], must_fire={'subst:eq_call': 1}),
  dict(IT, id='it_copy_assign', sig=r'iterator& operator=\(const iterator&' + PN + r'\)', defaultable=True,
       c_sig='static struct iterator* it_copy_assign(struct iterator* self, const struct iterator* other_p)', pre_subst=PARAM + IT_LOCALS, post_subst=OTHER),
  dict(IT, id='it_move_assign', sig=r'iterator& operator=\(iterator&&' + PN + r'\)', defaultable=True,
       c_sig='static struct iterator* it_move_assign(struct iterator* self, struct iterator* other_p)', pre_subst=PARAM + IT_LOCALS, post_subst=OTHER),
  dict(IT, id='it_copy_ctor', sig=r'(?<![\w~])iterator\(const iterator&' + PN + r'\)', defaultable=True, ctor=True,
       c_sig='static void it_copy_ctor(struct iterator* self, const struct iterator* other_p)', pre_subst=PARAM, post_subst=OTHER),
  dict(IT, id='it_move_ctor', sig=r'(?<![\w~])iterator\(iterator&&' + PN + r'\)', defaultable=True, ctor=True,
       c_sig='static void it_move_ctor(struct iterator* self, struct iterator* other_p)', pre_subst=PARAM, post_subst=OTHER),
]
def UW(L, NB):
  return ['hmm_find.0:2', 'hmm_find.1:1', 'hmm_find.2:1', 'hmm_find.3:1', 'hmm_find.4:%d' % (L + 1), 'hmm_find.5:%d' % (L + 1),
          'hmm_emplace_or_get.0:1', 'hmm_do_get_or_emplace_lazy.0:1', 'hmm_erase_key.0:1', 'hmm_erase_it.0:1', 'it_move_to_next_bucket.0:%d' % max(NB, 1), 'it_inc.0:1']
def RUN(entry, NB, L, memo, tiers=('quick', 'thorough'), word=None, **kw):
  d = dict(id='%s_b%d_l%d_m%d%s' % (entry[2:], NB, L, memo, '_w64' if word else ''), entry=entry, cls='shape-complete',
           defs={'NB': NB, 'L': L, 'XV_MEMO': memo}, unwindset=UW(L, NB), tiers=list(tiers),
           note='SEQ (no retry is needed: the retry back-edges are unwound 0 times and the unwinding assertions prove it); every loop over the list is unwound completely for the shape')
  if word: d['defs']['XV_WORD'] = word
  d.update(kw); return d
UNIT['runs'] += [
  dict(id='order', entry='h_order', cls='unbounded', note='loop-free; symbolic hashes (uninterpreted function of the key) and keys'),
  dict(id='map_to_bucket_b1', entry='h_map_to_bucket', cls='unbounded', defs={'NB': 1}),
  dict(id='map_to_bucket_b2', entry='h_map_to_bucket', cls='unbounded', defs={'NB': 2}),
]
CALLERS = ('h_lookup', 'h_insert', 'h_erase_key', 'h_inc', 'h_erase_it', 'h_begin', 'h_postinc')
def FC(e, NB, L, memo, tiers):
  r = RUN(e, NB, L, memo, tiers); r['defs']['XV_FIND_CONTRACT'] = 1; r['id'] += '_fc'
  r['note'] = 'internal find replaced by its executable contract (proved equivalent to the real text by run find_b%d_l%d_m%d); ' % (NB, L, memo) + r['note']
  return r
ALL = ('quick', 'thorough'); TH = ('thorough',)
for memo in (0, 1):
  for (NB, L, tiers) in ((2, 3, ALL), (1, 2, ALL), (2, 4, TH), (1, 4, TH), (3, 3, TH), (2, 5, TH)):
    UNIT['runs'].append(RUN('h_find', NB, L, memo, tiers))
    for e in CALLERS: UNIT['runs'].append(FC(e, NB, L, memo, tiers))
  # cross-checks (thorough): callers with the real find inlined; full-width words
  for e in CALLERS[:-1]:
    if e == 'h_insert':
      for w in range(5):
        r = RUN(e, 2, 3, memo, TH); r['id'] += '_real_w%d' % w; r['defs']['XV_ONLY_WHICH'] = w; r['timeout'] = 3000; UNIT['runs'].append(r)
    else:
      r = RUN(e, 2, 3, memo, TH); r['id'] += '_real'; r['timeout'] = 3000; UNIT['runs'].append(r)
  UNIT['runs'].append(RUN('h_find', 2, 3, memo, TH, word='uintptr_t'))
  for e in ('h_inc', 'h_erase_it', 'h_insert'): UNIT['runs'].append(FC(e, 2, 3, memo, TH)); UNIT['runs'][-1]['defs']['XV_WORD'] = 'uintptr_t'; UNIT['runs'][-1]['id'] += '_w64'
for memo in (0, 1):
  for (L, tiers) in ((2, ALL), (3, TH)):
    r = RUN('h_inc_int', 2, L, memo, tiers, mode='INT'); r['unwindset'] = [x for x in UW(L + 1, 2) if not x.startswith('it_inc')] + ['it_inc.0:3']
    r['note'] = 'INT: one step of another handle (insert / mark / unlink) between any two atomic steps of operator++; real find, run without interference'
    UNIT['runs'].append(r)
for e, memo in (('h_find_int', 0), ('h_find_int', 1), ('h_insert_int', 0), ('h_insert_int', 1), ('h_erase_key_int', 0), ('h_erase_it_int', 0)):
  UNIT['runs'].append(dict(id='%s_b2_m%d' % (e[2:], memo), entry=e, mode='INT', cls='shape-complete', defs={'NB': 2, 'L': 2, 'XV_MEMO': memo, 'XV_ENV_ARBITRARY': 1},
                           unwindset=['it_move_to_next_bucket.0:2'],
                           note='INT: every shared cell may change before every atomic step (rely: marked next fields are frozen, the private new node is untouched); retry loops cut by invariants; monitors check every CAS / reclaim; pool of L+3 nodes'))
UNIT['runs'] += [dict(id='special_b2_l3_m%d' % memo, entry='h_special', cls='shape-complete', defs={'NB': 2, 'L': 3, 'XV_MEMO': memo, 'XV_FIND_CONTRACT': 1}, unwindset=UW(3, 2),
                      note='special member functions, reset, operator== / != on any two iterator positions') for memo in (0,)]
UNIT['obligations'].update({
  'hmm.iter.postinc.copy': dict(deciding=True, text='operator++(int) returns the complete old position (map, bucket, prev, cur and the save guard for the predecessor that prev points into) and advances *this exactly as operator++ does'),
  'hmm.iter.special.memberwise': dict(deciding=True, text='copy/move construction and assignment give the target exactly the source position: map, bucket, prev, cur, save; the source of a copy is unchanged; self-assignment changes nothing'),
  'hmm.iter.reset.releases': dict(deciding=True, text='reset() makes the iterator equal to end() (bucket = num_buckets, no guards, prev null); operator== / != compare the current nodes'),
  'hmm.find.commit': dict(deciding=True, text='[INT] find: its unlink CAS uses the cell and value validated by the latest acquire_if_equal and the successor frozen by the mark, reclaim only after that CAS succeeded; on return cur is validated, unmarked, was still linked from prev when compared, result = key equality on it'),
  'hmm.insert.commit': dict(deciding=True, text='[INT] insertion: the linking CAS is on the cell/value find validated, installs the private initialised node whose next is that value; true iff this CAS succeeded; otherwise nothing published and the node freed'),
  'hmm.insert.expected_protected': dict(deciding=True, text='[INT] at the linking CAS of an insertion the expected successor is still protected by a guard of this operation (it was not reset between the validating find and the CAS): otherwise the node can be reclaimed and its address recycled in the window and the CAS succeeds on the recycled address (ABA)'),
  'hmm.sync.orders': dict(deciding=True, text='sync precondition [INT runs]: every guard acquisition uses acquire-or-stronger order, every successful link / unlink CAS is release-or-stronger, every successful marking CAS acquire-or-stronger'),
  'hmm.erase.commit': dict(deciding=True, text='[INT] erase: marking CAS on cur->next from the unmarked value read to the same value with mark; true only after it succeeded; unlink CAS on the validated prev from cur to the frozen successor; retire iff that CAS succeeded, else find is re-run'),
  'hmm.iter.erase.commit': dict(deciding=True, text='[INT] erase(iterator): as erase(key); the returned iterator never designates the erased node'),
  'hmm.iter.inc.progress': dict(deciding=True, text='[INT] ++ never designates the old element again and moves strictly forward, also when another handle inserts/erases next to cur between its steps (F11)'),
  'hmm.order.total': dict(deciding=True, text='greater_or_equal is the >= of a total order on (hash, key) that is consistent with key equality, for data_without_hash and data_with_hash'),
  'hmm.map_to_bucket.range': dict(deciding=True, text='map_to_bucket(h, num_buckets) < num_buckets'),
  'hmm.find.iff_live': dict(deciding=True, text='internal find / contains / find(key) succeed iff an unmarked node with the key is linked in the bucket'),
  'hmm.find.position': dict(deciding=True, text='after find: cur is the first unmarked node >= (hash,key) or null, prev/save designate its live predecessor (or the start), *prev == cur, next = cur->next'),
  'hmm.find.contract': dict(deciding=True, text='the real find and the executable contract used as stub in the callers produce the same results and the same post-state from every well-formed state and start'),
  'hmm.find.requires': dict(deciding=True, text='callers invoke find with a bucket head / linked node of that bucket / unlinked marked node as start, the start preceding the key'),
  'hmm.find.frame': dict(deciding=True, text='find unlinks exactly the marked nodes it passed, retires each exactly once, changes nothing else'),
  'hmm.mem.safe': dict(deciding=True, text='only guarded nodes (or the private new node) are dereferenced; prev is a bucket head or the next field of the node guarded by save; delete only of the unpublished own node'),
  'hmm.insert.iff_absent': dict(deciding=True, text='an insertion succeeds iff no unmarked node has the key; then exactly the new node (given key, given/lazily created value, hash) is linked at its sorted position and nothing else changes; otherwise the existing element is returned and the speculative node is freed (lazy variants: never built)'),
  'hmm.erase.iff_present': dict(deciding=True, text='erase(key) succeeds iff an unmarked node has the key; exactly that node is marked, unlinked and retired once; besides that only marked nodes on the way are unlinked (retired once each)'),
  'hmm.iter.inc.next_live': dict(deciding=True, text='after ++ the iterator designates the next linked node behind the old position (same bucket, else first node of the next non-empty bucket) or end; never the old element again; prev/save consistent'),
  'hmm.iter.inc.no_skip': dict(deciding=True, text='++ leaves out no unmarked node between the old and the new position'),
  'hmm.iter.inc.frame': dict(deciding=True, text='++ changes nothing except unlinking (and retiring once) marked nodes on its way'),
  'hmm.iter.erase.exact': dict(deciding=True, text='erase(iterator) marks exactly the referenced node, unlinks and retires it once (or leaves that to whoever unlinked it), returns an iterator to the following element'),
  'hmm.guard.raw_pinned': dict(deciding=True, text='a guard_ptr built from a raw pointer is only legitimate while the node is pinned: null, the own unpublished node, or the frozen successor of a marked node that this operation has not yet spliced out (erase(iterator): the successor guard must be taken before the unlink CAS, otherwise the returned iterator may refer to reclaimed memory) [SEQ and INT]'),
  'hmm.iter.begin.first': dict(deciding=True, text='begin() designates the first linked node of the first non-empty bucket, end() designates nothing'),
})
import re as _re, os as _os
UNIT['canaries'] = sorted(set(_re.findall(r'XV_CANARY\("([^"]+)"\)', open(_os.path.join('/verif/units/hmm', 'harness.c')).read())))
UNIT['replays'] = {
  'hmm.order.total': dict(src='replay_order.cpp'),
  'hmm.find.iff_live': dict(src='replay_map.cpp', fixed={'op': 'find'}),
  'hmm.insert.iff_absent': dict(src='replay_map.cpp', fixed={'op': 'insert'}),
  'hmm.erase.iff_present': dict(src='replay_map.cpp', fixed={'op': 'erase_key'}),
  'hmm.iter.inc.no_skip': dict(src='replay_map.cpp', fixed={'op': 'inc'}),
  'hmm.iter.inc.next_live': dict(src='replay_map.cpp', fixed={'op': 'inc'}),
  'hmm.iter.erase.exact': dict(src='replay_map.cpp', fixed={'op': 'erase_it'}),
}
