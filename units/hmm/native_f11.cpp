// F11: harris_michael_hash_map::iterator::operator++ takes the slow path (find by cur's key) whenever acquire_if_equal(cur->next, next)
// fails - also when cur is NOT marked (another handle inserted a node right behind cur, or unlinked cur's successor, between the
// load of cur->next and acquire_if_equal).  find then returns cur itself: the element is yielded twice.
// Needs the test hook of hook_f11.diff (std::function xenium::xv_hook, invoked once in operator++ between the load of cur->next
// and `guard_ptr tmp_guard;`, i.e. before acquire_if_equal):   git -C <worktree> apply hook_f11.diff
// build: g++ -std=c++17 -fno-access-control -I <worktree> native_f11.cpp -pthread ; exit 1 = defect reproduced, 0 = behaves
#include <xenium/harris_michael_hash_map.hpp>
#include <xenium/reclamation/generic_epoch_based.hpp>
#include <cstdio>
#include <vector>
#ifndef XENIUM_XV_HOOK
#error "apply units/hmm/hook_f11.diff to the worktree given with -I"
#endif
using M = xenium::harris_michael_hash_map<int, int, xenium::policy::reclaimer<xenium::reclamation::epoch_based<>>, xenium::policy::buckets<1>>;
static int run(bool insert) {
  M m; for (int k : {10, 20, 30}) m.emplace(k, k);
  std::vector<int> yielded;
  auto it = m.begin(); yielded.push_back(it->first);
  // the other handle acts while ++ sits between its load of cur->next and acquire_if_equal
  if (insert) xenium::xv_hook = [&] { m.emplace(15, 15); };     // insert right behind the current element
  else xenium::xv_hook = [&] { m.erase(20); };                   // erase the successor of the current element
  ++it;
  for (; it != m.end(); ++it) yielded.push_back(it->first);
  printf("%s during ++ at 10: yielded", insert ? "emplace(15)" : "erase(20)  "); for (int k : yielded) printf(" %d", k); puts("");
  int bad = 0; for (size_t i = 1; i < yielded.size(); i++) if (yielded[i] <= yielded[i - 1]) bad = 1;
  return bad;
}
int main() {
  int a = run(true), b = run(false);
  if (a || b) { puts("VIOLATION: an element that was neither erased nor re-inserted is yielded twice"); return 1; }
  puts("ok"); return 0;
}
