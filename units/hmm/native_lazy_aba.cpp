// harris_michael_hash_map::get_or_emplace(_lazy) / operator[] : ABA on the linking CAS (finding F18, C08).
// do_get_or_emplace_lazy resets info.cur (the guard on the successor found by find()) BEFORE its linking compare_exchange.  In that window the
// successor can be erased, reclaimed (hazard_pointer, retire threshold 1) and its address handed out again for a node that another thread links at
// the same place - here a node with the SAME key.  The CAS then succeeds on the recycled address: the key is in the map twice and the call reports
// an insertion although the key was present.  "The other thread" runs at the verification hook point between the reset and the CAS
// (guard MPOETER_XENIUM_VERIF), which is one legal interleaving.  Single threaded, deterministic.  emplace_or_get keeps its guard until after the CAS.
// build: g++ -std=c++17 -O1 -g -DMPOETER_XENIUM_VERIF -fno-access-control -I /repo -pthread native_lazy_aba.cpp
#include <cstddef>
#include <cstdio>
#include <cstdlib>
#include <new>
#include <string>

// --- tiny LIFO size-class cache in front of malloc (makes the address reuse deterministic) ---
namespace {
struct cache_slot {
  std::size_t size;
  void* block;
};
cache_slot cache[64];
int cached = 0;
} // namespace

void* operator new(std::size_t sz) {
  for (int i = cached - 1; i >= 0; --i) {
    if (cache[i].size == sz) {
      void* p = cache[i].block;
      cache[i] = cache[--cached];
      return p;
    }
  }
  void* p = std::malloc(sz + sizeof(std::max_align_t));
  if (!p) {
    throw std::bad_alloc();
  }
  *static_cast<std::size_t*>(p) = sz;
  return static_cast<char*>(p) + sizeof(std::max_align_t);
}
static void release(void* p) noexcept {
  if (!p) {
    return;
  }
  void* raw = static_cast<char*>(p) - sizeof(std::max_align_t);
  std::size_t sz = *static_cast<std::size_t*>(raw);
  if (cached < 64) {
    cache[cached++] = {sz, p};
  } else {
    std::free(raw);
  }
}
void operator delete(void* p) noexcept { release(p); }
void operator delete(void* p, std::size_t) noexcept { release(p); }

#include <xenium/harris_michael_hash_map.hpp>
#include <xenium/reclamation/hazard_pointer.hpp>

using reclaimer = xenium::reclamation::hazard_pointer<>::with<
  xenium::policy::allocation_strategy<xenium::reclamation::hp_allocation::static_strategy<8, 0, 1>>>;

static bool g_other_erase = false, g_other_emplace = false; static int g_hook_fired = 0;
struct map_holder;
static void* g_map = nullptr;
using map_t =
  xenium::harris_michael_hash_map<int, int, xenium::policy::reclaimer<reclaimer>, xenium::policy::buckets<1>>;

int main() {
  int failures = 0;
  {
    map_t map;
    map.emplace(10, 1000); // successor of the position where key 5 belongs

    g_map = &map;
    ::xenium_verif_point_hook = [](const char* id) {
      if (std::string(id) != "harris_michael_hash_map.get_or_emplace_lazy.before_link_cas" || g_hook_fired++) return;
      auto& m = *static_cast<map_t*>(g_map);
      g_other_erase = m.erase(10);         // B: erase(10) -> true   (the successor A is about to use as expected value is unlinked, retired, freed)
      g_other_emplace = m.emplace(5, 111); // B: emplace(5, 111) -> true   (its node gets the recycled address and is linked at the same place)
    };
    // "Thread A": get_or_emplace_lazy(5); "thread B" runs while A is between releasing its guard on the successor and its linking CAS.
    auto result = map.get_or_emplace_lazy(5, [&]() { return 222; });
    ::xenium_verif_point_hook = nullptr;
    bool other_erase = g_other_erase, other_emplace = g_other_emplace;
    bool a_inserted = result.second;
    int a_value = result.first->second;
    result.first.reset();

    std::printf("B: erase(10) -> %d, emplace(5,111) -> %d;  A: get_or_emplace_lazy(5) -> inserted=%d value=%d\n",
                other_erase,
                other_emplace,
                a_inserted,
                a_value);

    int count5 = 0;
    int total = 0;
    for (auto it = map.begin(); it != map.end(); ++it) {
      ++total;
      if (it->first == 5) {
        ++count5;
      }
    }
    std::printf("map now holds %d element(s), %d of them with key 5\n", total, count5);

    if (!other_erase || !other_emplace) {
      std::printf("FAIL: unexpected result of the interleaved operations\n");
      ++failures;
    }
    if (a_inserted) {
      std::printf("FAIL: get_or_emplace_lazy(5) reported an insertion although emplace(5,111) had already succeeded\n");
      ++failures;
    }
    if (a_value != 111) {
      std::printf("FAIL: get_or_emplace_lazy(5) must return the element inserted by B (value 111)\n");
      ++failures;
    }
    if (count5 != 1) {
      std::printf("FAIL: key 5 is stored %d times\n", count5);
      ++failures;
    }
    bool e1 = map.erase(5);
    bool e2 = map.erase(5);
    if (!e1 || e2) {
      std::printf("FAIL: erase(5) -> %d, erase(5) again -> %d (expected 1, 0)\n", e1, e2);
      ++failures;
    }
  }
  if (failures == 0) {
    std::printf("OK\n");
    return 0;
  }
  return 1;
}
