/* unit hmm - harris_michael_hash_map (C08, C09).  Declarations, contract stubs, ghost state, invariants, harnesses.
 * All function bodies come from lowered.h (extracted from /repo on every run). */
#include <stdint.h>
#include <stddef.h>
#ifndef NB
#define NB 2          /* shape: number of buckets */
#endif
#ifndef L
#define L 3           /* shape: at most L linked nodes (over all buckets) */
#endif
#ifndef XV_MEMO
#define XV_MEMO 0     /* policy memoize_hash: data_t = data_with_hash (1) / data_without_hash (0) */
#endif
/* ---- monitors ---- */
static void mon_cas(void* addr, uint64_t e, uint64_t d, _Bool ok, int o);
static void mon_store(void* addr, uint64_t v, int o);
#define XV_ON_CAS(addr, e, d, ok, order) mon_cas((void*)(addr), (uint64_t)(e), (uint64_t)(d), (ok), (order))
#define XV_ON_STORE(addr, val, order) mon_store((void*)(addr), (uint64_t)(val), (order))
static void mon_load(void* addr, uint64_t v, int o);
#define XV_ON_LOAD(addr, val, order) mon_load((void*)(addr), (uint64_t)(val), (order))
#include "xv.h"
int xv_threw; uint64_t xv_clock, xv_rmw_old; _Bool xv_cas_ok;

/* ---- types: marked_ptr / guard_ptr / node* are words: (node index + 1) * 2 | delete mark ---- */
#ifndef XV_WORD
#define XV_WORD uint8_t   /* node handles are small integers; -DXV_WORD=uintptr_t in the thorough tier */
#endif
typedef XV_WORD mptr; typedef mptr guard_t; typedef size_t hash_t; typedef uint32_t kkey_t; typedef XV_WORD val_t;
struct value_type { kkey_t first; val_t second; };
struct data_t { hash_t hash; struct value_type value; };      /* data_without_hash: the hash field does not exist (kept arbitrary) */
struct node { struct data_t data; mptr next; };
struct find_info { mptr* prev; mptr next; guard_t cur; guard_t save; };
struct hmm { mptr buckets[NB]; };
struct iterator { struct hmm* map; size_t bucket; struct find_info info; };
struct pair_ib { struct iterator first; _Bool second; };
struct accessor { guard_t guard; };
#define num_buckets ((size_t)NB)

#define NP (L + 3)
#define IX (L)          /* a node that is marked and already unlinked (iterator's cur left behind by another handle) */
#define IY (L + 1)      /* a second marked + unlinked node (iterator's save) */
#define IN (L + 2)      /* the slot operator new returns */
struct hmm M; struct node pool[NP];
unsigned g_retired[NP]; _Bool g_alloc, g_freed, g_published; unsigned g_alloc_count, g_factory_calls;
#define W(i) ((((mptr)(i)) + 1) << 1)
#define MP_get(x) ((mptr)(x) & ~(mptr)1)
#define MP_mark(x) ((mptr)(x) & 1)
#define MP_make(p, m) ((mptr)(p) | (mptr)(m))
static _Bool is_node(mptr w) { return (w >> 1) >= 1 && (w >> 1) <= NP; }
static size_t idx_of(mptr w) { return (size_t)(w >> 1) - 1; }

/* ---- memory safety: dereferences ---- */
static struct node* xv_gderef(guard_t g) {      /* operator-> of a guard_ptr: the guard must hold a node (guarded nodes are never freed: guard contract) */
  _Bool ok = is_node(g) && !(idx_of(g) == IN && (g_freed || !g_alloc));
  XV_OBL("hmm.mem.safe", ok); XV_ASSUME(ok);
  return &pool[idx_of(g)];
}
static struct node* xv_nderef(mptr n) {         /* raw node*: only the node this call allocated, while it is still private (or guarded by the caller) */
  _Bool ok = (n == W(IN)) && g_alloc && !g_freed;
  XV_OBL("hmm.mem.safe", ok); XV_ASSUME(ok);
  return &pool[IN];
}
static mptr* xv_prev(struct find_info* i) {     /* concurrent_ptr* prev: a bucket head, or the next field of the node guarded by save */
  _Bool ok = 0;
  for (unsigned b = 0; b < NB; b++) if (i->prev == &M.buckets[b]) ok = 1;
  if (is_node(i->save) && MP_mark(i->save) == 0 && i->prev == &pool[idx_of(i->save)].next) ok = 1;
  XV_OBL("hmm.mem.safe", ok); XV_ASSUME(ok);
  return i->prev;
}
#define GDEREF(g) xv_gderef(g)
#define NDEREF(n) xv_nderef(n)
#define XV_PREV(i) xv_prev(&(i))

/* ---- guard_ptr contract stubs ---- */
#ifdef XV_INT
void xv_env(void);
#endif
mptr* mon_val_cell; mptr mon_val_value; _Bool mon_val_ok; uint64_t mon_val_clock;   /* last acquire_if_equal */
/* sync preconditions (memory orders are data): guard acquisitions acquire-or-stronger; link / unlink CAS release-or-stronger; mark CAS acquire-or-stronger */
#ifdef XV_INT
#define SYNC_OBL(c) XV_OBL("hmm.sync.orders", (c))
#else
#define SYNC_OBL(c) ((void)0)      /* checked once, in the INT runs */
#endif
static _Bool g_acquire_if_equal(guard_t* g, mptr* cell, mptr expected, int mo) {
  XV_ENV(); xv_clock++; SYNC_OBL(XV_IS_ACQUIRE(mo));
  mon_val_cell = cell; mon_val_value = expected; mon_val_clock = xv_clock;
  if (*cell == expected) { *g = expected; mon_val_ok = 1; return 1; }
  *g = 0; mon_val_ok = 0; return 0;
}
static void g_acquire(guard_t* g, mptr* cell, int mo) { XV_ENV(); xv_clock++; *g = *cell; SYNC_OBL(XV_IS_ACQUIRE(mo)); }
static void mon_reclaim(guard_t g);
static void g_reclaim(guard_t* g) {
  _Bool ok = is_node(*g) && MP_mark(*g) == 0;
  XV_OBL("hmm.mem.safe", ok); XV_ASSUME(ok);
  mon_reclaim(*g);
  g_retired[idx_of(*g)]++; *g = 0;
}
#define G_acquire_if_equal(g, cell, e, mo) g_acquire_if_equal(&(g), &(cell), (e), (mo))
#define G_acquire(g, cell, mo) g_acquire(&(g), &(cell), (mo))
/* guard_ptr::reset: the protection is dropped.  Ghost: the (non-null) values this operation has released since its latest find - a node it no longer
   protects may be reclaimed and its address recycled by other threads at any time (ABA) */
mptr mon_reset_vals[4]; unsigned mon_reset_n;
static void mon_note_reset(mptr v) { if (v != 0 && mon_reset_n < 4) mon_reset_vals[mon_reset_n++] = v; }
#define G_reset(g) (mon_note_reset(g), (g) = 0)
#define G_reclaim(g) g_reclaim(&(g))
/* guard_ptr(raw pointer): no validation is possible, so it is only legitimate while p is PINNED: p is null, or this call's own
 * not yet freed new node, or the frozen successor (c->next carries the delete mark, so it can never change) of a node c that this
 * operation has not yet spliced out itself - as long as c is in the list its successor cannot be unlinked, hence not retired or freed;
 * if c was already unlinked by somebody else the following unlink CAS fails and the guard is dropped unused.  After the operation's own
 * successful unlink CAS nothing pins the successor any more: under hazard pointers / eras it may be erased and freed before the guard
 * exists (erase(iterator): the successor guard must be taken BEFORE the unlink CAS).  Same contract as hms.guard.raw_pinned in unit hms. */
_Bool g_unlinked_by_us[NP];     /* set by mon_cas when a CAS of the operation under test splices a marked node out */
static guard_t g_from_raw(mptr p) {
  _Bool pin = MP_get(p) == 0 || (MP_get(p) == W(IN) && g_alloc && !g_freed);
  for (unsigned c = 0; c < NP; c++)
    if (MP_mark(pool[c].next) == 1 && MP_get(pool[c].next) == MP_get(p) && !g_unlinked_by_us[c] && !(c == IN && !g_published)) pin = 1;
  XV_OBL("hmm.guard.raw_pinned", pin);
  return (guard_t)p;
}
#define G_from_raw(p) g_from_raw(p)

/* ---- hash, bucket map, order: the real texts (lowered.h), selected by the memoize_hash policy ---- */
size_t __CPROVER_uninterpreted_hashfn(kkey_t);
#define HASH_FN(k) __CPROVER_uninterpreted_hashfn(k)
static hash_t dwoh_get_hash(const struct data_t* self); static _Bool dwoh_greater_or_equal(const struct data_t* self, hash_t h, kkey_t key);
static hash_t dwh_get_hash(const struct data_t* self); static _Bool dwh_greater_or_equal(const struct data_t* self, hash_t h, kkey_t key);
static void dwh_ctor_without_hash(struct data_t* self);
static size_t utils_modulo(size_t a, size_t b);
#if XV_MEMO
#define DATA_greater_or_equal(d, h, k) dwh_greater_or_equal(&(d), (h), (k))
#define DATA_get_hash(d) dwh_get_hash(&(d))
#else
#define DATA_greater_or_equal(d, h, k) dwoh_greater_or_equal(&(d), (h), (k))
#define DATA_get_hash(d) dwoh_get_hash(&(d))
#endif
static size_t xv_map_to_bucket(hash_t h, size_t n) {
  size_t r = utils_modulo(h, n);
  XV_OBL("hmm.map_to_bucket.range", r < n);
  return r;
}
#define MAP_TO_BUCKET(h, n) xv_map_to_bucket((h), (n))

/* ---- allocation ---- */
static mptr xv_new_node(_Bool with_hash, hash_t hash, kkey_t key, val_t value) {
  XV_OBL("hmm.insert.iff_absent", !g_alloc);       /* one node per insertion attempt */
  g_alloc = 1; g_alloc_count++;
  pool[IN].data.value.first = key; pool[IN].data.value.second = value; pool[IN].next = 0;
#if XV_MEMO
  if (with_hash) pool[IN].data.hash = hash; else dwh_ctor_without_hash(&pool[IN].data);
#else
  pool[IN].data.hash = nondet_size();
#endif
  return W(IN);
}
static void xv_delete(mptr n) {
  if (n == 0) return;
  _Bool ok = (n == W(IN)) && g_alloc && !g_freed && !g_published;
  XV_OBL("hmm.mem.safe", ok); XV_ASSUME(ok);
  g_freed = 1;
}
#define XV_NEW_NODE(hash, key, value) xv_new_node(1, (hash), (key), (value))
#define XV_NEW_NODE_WITHOUT_HASH(key, value) xv_new_node(0, 0, (key), (value))
#define XV_DELETE(n) xv_delete(n)
val_t xv_cap_args; val_t (*xv_cap_value_factory)(void);
#define XV_CAPTURE(var, fn) (xv_cap_##var = (var), (fn))
#define XV_DEFAULT_VALUE ((val_t)0)

/* ---- glue for C++ constructs ---- */
#define FI_INIT(p) ((struct find_info){ (p), 0, 0, 0 })
#define XV_SWAP(a, b) do { guard_t xv_t = (a); (a) = (b); (b) = xv_t; } while (0)
#define XV_BACKOFF() ((void)0)
#define XV_PAIR(it, b) ((struct pair_ib){ (it), (b) })
#define ACC_make(g) ((struct accessor){ (g) })
#define XV_INIT_map(self, v) ((self)->map = (v))
#define XV_INIT_bucket(self, v) ((self)->bucket = (v))
#define XV_INIT_info(self, v) ((self)->info = (v))
static _Bool hmm_find(struct hmm* self, hash_t hash, kkey_t key, size_t bucket, struct find_info* info_p, int backoff);
static struct iterator hmm_end(struct hmm* self);
static struct pair_ib hmm_emplace_or_get(struct hmm* self, kkey_t key, val_t value);
static struct pair_ib hmm_do_get_or_emplace_lazy(struct hmm* self, kkey_t key, mptr (*node_factory)(hash_t, kkey_t));
static struct pair_ib hmm_get_or_emplace_lazy(struct hmm* self, kkey_t key, val_t (*value_factory)(void));
static void it_ctor1(struct iterator* self, struct hmm* map);
static void it_ctor2(struct iterator* self, struct hmm* map, size_t bucket);
static void it_ctor3(struct iterator* self, struct hmm* map, size_t bucket, struct find_info info);
static void it_move_to_next_bucket(struct iterator* self);
static struct iterator xv_it_blank(void) { struct iterator it; it.map = 0; it.bucket = nondet_size(); it.info.prev = 0; it.info.next = 0; it.info.cur = 0; it.info.save = 0; return it; }
static struct iterator IT_make1(struct hmm* m) { struct iterator it = xv_it_blank(); it_ctor1(&it, m); return it; }
static struct iterator IT_make2(struct hmm* m, size_t b) { struct iterator it = xv_it_blank(); it_ctor2(&it, m, b); return it; }
static struct iterator IT_make3(struct hmm* m, size_t b, struct find_info i) { struct iterator it = xv_it_blank(); it_ctor3(&it, m, b, i); return it; }
#define IT_make(...) XV_PICK3(__VA_ARGS__, IT_make3, IT_make2, IT_make1)(__VA_ARGS__)
/* callers of the internal find: the real text (default) or its executable contract (-DXV_FIND_CONTRACT), which run h_find proves
 * equivalent to the real text on every well-formed state and every start an iterator can hand in */
static _Bool hmm_find_contract(struct hmm* self, hash_t hash, kkey_t key, size_t bucket, struct find_info* info);
#ifdef XV_FIND_CONTRACT
#define XV_FIND_IMPL(self, h, k, b, ip, bo) hmm_find_contract((self), (h), (k), (b), (ip))
#else
#define XV_FIND_IMPL(self, h, k, b, ip, bo) hmm_find((self), (h), (k), (b), (ip), (bo))
#endif
_Bool env_on;
#ifdef XV_INT
#undef XV_SPURIOUS
#define XV_SPURIOUS() (env_on && nondet_bool())      /* weak CAS fails spuriously only where interference is enabled */
#endif
#if defined(XV_INT) && !defined(XV_ENV_ARBITRARY)
/* INT runs on the callers: the interference is placed between the caller's own steps; find itself runs without interference there
 * (its interference behaviour is the subject of the find_int run) */
static _Bool xv_find_noenv(struct hmm* self, hash_t h, kkey_t k, size_t b, struct find_info* ip, int bo) {
  _Bool e = env_on; env_on = 0; _Bool r = XV_FIND_IMPL(self, h, k, b, ip, bo); env_on = e; return r; }
#define HMM_FIND(self, h, k, b, i, bo) xv_find_noenv((self), (h), (k), (b), &(i), (bo))
#define IT_map_find(m, h, k, b, i, bo) xv_find_noenv(&(m), (h), (k), (b), &(i), (bo))
#else
#define HMM_FIND(self, h, k, b, i, bo) XV_FIND_IMPL((self), (h), (k), (b), &(i), (bo))
#define IT_map_find(m, h, k, b, i, bo) XV_FIND_IMPL(&(m), (h), (k), (b), &(i), (bo))
#endif
#define IT_move_to_next_bucket(pos) it_move_to_next_bucket(&(pos))
#define XV_GOTO_RETRY goto retry

/* ---- monitors ---- */
enum { MON_OFF = 0, MON_FIND, MON_INSERT, MON_ERASE_KEY, MON_ERASE_IT };
int mon_mode;
unsigned mon_cas_count, mon_cas_ok_count; mptr* mon_cas_cell; mptr mon_cas_expected, mon_cas_desired; _Bool mon_cas_last_ok;
mptr* mon_ld_cell[2]; mptr mon_ld_val[2];                     /* the last two atomic loads ([1] = latest) */
unsigned abs_find_calls; mptr abs_find_cur, abs_find_next; mptr* abs_find_prev;      /* what the latest (abstract) find returned */
unsigned er_phase; mptr er_cur, er_succ; _Bool er_unlink_ok; unsigned er_reclaims, er_finds_after_mark; mptr mon_obs_curnext; mptr* er_prev;
kkey_t ins_key; val_t in_v;
static void mon_load(void* addr, uint64_t v, int o) {
  mon_ld_cell[0] = mon_ld_cell[1]; mon_ld_val[0] = mon_ld_val[1]; mon_ld_cell[1] = (mptr*)addr; mon_ld_val[1] = (mptr)v;
  if (mon_mode == MON_ERASE_IT && is_node(er_cur) && addr == (void*)&pool[idx_of(er_cur)].next) mon_obs_curnext = (mptr)v;
}
static void mon_cas(void* addr, uint64_t e, uint64_t d, _Bool ok, int o) {
  mon_cas_count++; if (ok) mon_cas_ok_count++;
  mon_cas_cell = (mptr*)addr; mon_cas_expected = e; mon_cas_desired = d; mon_cas_last_ok = ok;
  if (ok) { if (d == (e | 1) && MP_mark(e) == 0) SYNC_OBL(XV_IS_ACQUIRE(o)); else SYNC_OBL(XV_IS_RELEASE(o)); }     /* marking CAS : link / unlink CAS */
  if (mon_mode == MON_FIND) {
    /* find's only CAS unlinks a marked node: the cell and the expected value are the ones the latest acquire_if_equal validated;
       the new value is the successor read from cur->next after cur was seen marked (a marked next field is frozen) */
    _Bool good = mon_val_ok && (mptr*)addr == mon_val_cell && e == mon_val_value && e != 0 && MP_mark(e) == 0 && is_node(e)
              && mon_ld_cell[1] == &pool[idx_of(e)].next && MP_mark(mon_ld_val[1]) == 1 && d == MP_get(mon_ld_val[1])
              && mon_ld_cell[0] == &pool[idx_of(e)].next && MP_mark(mon_ld_val[0]) == 1;
    XV_OBL("hmm.find.commit", good);
  }
  if (mon_mode == MON_INSERT) {
    /* the linking CAS: on the cell and with the expected value the latest find validated (unmarked: the predecessor is not deleted),
       new value = the private, fully initialised node whose next is that expected value */
    _Bool good = (mptr*)addr == mon_val_cell && mon_val_ok && e == mon_val_value && MP_mark(e) == 0 && d == W(IN) && g_alloc && !g_freed && !g_published
              && pool[IN].next == e && pool[IN].data.value.first == ins_key;
    XV_OBL("hmm.insert.commit", good);
    /* ... and that expected successor is still protected by this operation: a node whose guard was reset before the CAS can be unlinked, reclaimed and its
       address re-used for another node linked at the same place, and the CAS would succeed on the recycled address (ABA: a key inserted twice, a lost node) */
    { _Bool released = 0; for (unsigned i = 0; i < 4; i++) if (i < mon_reset_n && e != 0 && mon_reset_vals[i] == e) released = 1;
      XV_OBL("hmm.insert.expected_protected", !released); }
  }
  if (mon_mode == MON_ERASE_KEY || mon_mode == MON_ERASE_IT) {
    _Bool on_curnext = is_node(er_cur) && (mptr*)addr == &pool[idx_of(er_cur)].next;
    if (on_curnext && er_phase == 0) {       /* marking CAS: on cur->next, expected = the unmarked value read from it, new = the same with the mark */
      _Bool good = MP_mark(e) == 0 && d == (e | 1) && (mon_mode == MON_ERASE_KEY ? (er_cur == abs_find_cur && e == abs_find_next) : (e == mon_obs_curnext));
      XV_OBL("hmm.erase.commit", good);
      if (ok) { er_phase = 1; mon_obs_curnext = (mptr)d; } else mon_obs_curnext = *(mptr*)addr;
    } else {                   /* unlinking CAS: on the validated prev cell, expected = cur (unmarked), new = the successor frozen by the mark */
      _Bool good = (er_phase == 1 || (mon_mode == MON_ERASE_IT && er_phase == 0)) && (mptr*)addr == er_prev && e == er_cur && MP_mark(e) == 0
                && d == MP_get(mon_obs_curnext) && MP_mark(mon_obs_curnext) == 1;
      XV_OBL("hmm.erase.commit", good);
      er_phase = 2; er_unlink_ok = ok;
    }
  }
  if (ok && MP_get(d) == W(IN)) g_published = 1;
  if (ok && is_node((mptr)e) && MP_mark(e) == 0 && idx_of((mptr)e) < NP && MP_mark(pool[idx_of((mptr)e)].next) == 1 && (mptr)d == MP_get(pool[idx_of((mptr)e)].next))
    g_unlinked_by_us[idx_of((mptr)e)] = 1;      /* an unlink of node e (see g_from_raw) */
}
static void mon_store(void* addr, uint64_t v, int o) { }
static void mon_reclaim(guard_t g) {
  if (mon_mode == MON_FIND) XV_OBL("hmm.find.commit", mon_cas_count == 1 && mon_cas_last_ok && mon_cas_expected == g);   /* mon_cas_count: per loop iteration */
  if (mon_mode == MON_ERASE_KEY || mon_mode == MON_ERASE_IT) { XV_OBL("hmm.erase.commit", er_phase == 2 && er_unlink_ok && g == er_cur && er_reclaims == 0); er_reclaims++; }
  if (mon_mode == MON_INSERT) XV_OBL("hmm.insert.commit", 0);
}

/* ---- INT with arbitrary interference: before every atomic step the other threads may rewrite every shared cell ---- */
static mptr nondet_word(void) { mptr w = nondet_uptr(); XV_ASSUME(MP_get(w) == 0 || (is_node(w) && idx_of(w) < NP)); return w; }
static mptr* nondet_cell(void) { unsigned k = nondet_uint(); XV_ASSUME(k < NB + NP); return k < NB ? &M.buckets[k] : &pool[k - NB].next; }
static void havoc_shared(void) {
  for (unsigned b = 0; b < NB; b++) M.buckets[b] = nondet_word();
  /* rely: a marked next field never changes again (guaranteed by every CAS on a next field expecting an unmarked value - checked by the commit obligations);
     the private new node is not touched by others */
  for (unsigned i = 0; i < NP; i++) if ((i != IN || g_published) && MP_mark(pool[i].next) == 0) pool[i].next = nondet_word();
}
static void havoc_monitors(void) {
  mon_cas_count = 0; mon_cas_last_ok = nondet_bool(); mon_cas_cell = nondet_cell(); mon_cas_expected = nondet_uptr(); mon_cas_desired = nondet_uptr();
  mon_val_ok = nondet_bool(); mon_val_cell = nondet_cell(); mon_val_value = nondet_uptr();
  mon_ld_cell[0] = nondet_cell(); mon_ld_cell[1] = nondet_cell(); mon_ld_val[0] = nondet_uptr(); mon_ld_val[1] = nondet_uptr();
  abs_find_calls = nondet_uint(); abs_find_cur = nondet_uptr(); abs_find_next = nondet_uptr(); abs_find_prev = nondet_cell();
}
static _Bool fi_valid(const struct find_info* i, size_t bucket) {
  if (bucket >= NB) return 0;
  if (i->save == 0) return i->prev == &M.buckets[bucket];
  return is_node(i->save) && MP_mark(i->save) == 0 && !(idx_of(i->save) == IN && !g_published) && i->prev == &pool[idx_of(i->save)].next;
}
static _Bool guard_valid(guard_t g) { return g == 0 || (is_node(g) && MP_mark(g) == 0 && !(idx_of(g) == IN && !g_published)); }
#ifdef XV_ENV_ARBITRARY
void xv_env(void) { if (env_on) havoc_shared(); }
#endif
/* abstract find for the INT runs of its callers: it returns SOME (prev, cur, next, save) - the interference decides which - with the
 * guarantees run find_int proves for the real text: prev/save well-formed, cur validated by acquire_if_equal on prev, cur unmarked,
 * next = an unmarked value read from cur->next, result true iff cur has the key */
static _Bool hmm_find_abs(struct hmm* self, hash_t h, kkey_t k, size_t b, struct find_info* info) {
  _Bool pre = self == &M && fi_valid(info, b);
  XV_OBL("hmm.find.requires", pre); XV_ASSUME(pre);
  abs_find_calls++; if (er_phase >= 1) er_finds_after_mark++;
  havoc_shared();
  info->prev = nondet_cell(); info->save = nondet_word(); info->cur = nondet_word(); info->next = nondet_word();
  XV_ASSUME(fi_valid(info, b) && guard_valid(info->cur) && MP_mark(info->next) == 0);
  if (info->cur == 0) XV_ASSUME(info->next == 0);
  mon_val_cell = info->prev; mon_val_value = info->cur; mon_val_ok = 1; mon_reset_n = 0;
  abs_find_cur = info->cur; abs_find_next = info->next; abs_find_prev = info->prev;
  if (mon_mode == MON_ERASE_KEY && er_phase == 0) { er_cur = info->cur; er_prev = info->prev; }
  _Bool r = nondet_bool();
  XV_ASSUME(r == (info->cur != 0 && pool[idx_of(info->cur)].data.value.first == k));
  return r;
}
#define HMM_FIND_ABS(self, h, k, b, i, bo) hmm_find_abs((self), (h), (k), (b), &(i))

/* ---- loop cuts (INT runs): invariants over the locals of the lowered functions ---- */
static _Bool start_ok(mptr* start, guard_t sg, size_t bucket) {
  return bucket < NB && ((start == &M.buckets[bucket] && sg == 0) || (is_node(sg) && MP_mark(sg) == 0 && start == &pool[idx_of(sg)].next));
}
#define XV_RETRY_CUT do { XV_OBL("hmm.find.commit", start_ok(start, start_guard, bucket)); __CPROVER_assume(0); } while (0)
#define XV_INV_FIND (fi_valid(&info, bucket) && guard_valid(info.cur) && MP_mark(info.next) == 0 && start_ok(start, start_guard, bucket))
#define XV_HAVOC_FIND info.prev = nondet_cell(); info.next = nondet_word(); info.cur = nondet_word(); info.save = nondet_word(); \
   havoc_shared(); havoc_monitors(); for (unsigned xi = 0; xi < NP; xi++) g_retired[xi] = nondet_uint() /* XV_PREV(info) expected */
static _Bool xv_new_content_ok(kkey_t key) { return pool[IN].data.value.first == key && (!XV_MEMO || pool[IN].data.hash == HASH_FN(key)); }
#define XV_INV_INS (n == W(IN) && g_alloc && !g_freed && !g_published && g_alloc_count == 1 && xv_new_content_ok(key) && pool[IN].data.value.second == value \
   && h == DATA_get_hash(pool[IN].data) && bucket < NB && fi_valid(&info, bucket) && guard_valid(info.cur) && mon_cas_ok_count == 0)
#define XV_HAVOC_INS info.prev = nondet_cell(); info.next = nondet_word(); info.cur = nondet_word(); info.save = nondet_word(); \
   pool[IN].next = nondet_uptr(); havoc_shared(); havoc_monitors() /* XV_PREV(info) NDEREF(n)->next expected new_guard */
#define XV_INV_LAZY (bucket < NB && h == HASH_FN(ins_key) && fi_valid(&info, bucket) && mon_cas_ok_count == 0 && !g_freed && !g_published && \
   (n == 0 ? (!g_alloc && g_alloc_count == 0 && g_factory_calls == 0 && pkey == &key && key == ins_key && guard_valid(info.cur)) \
           : (n == W(IN) && g_alloc && g_alloc_count == 1 && pkey == &pool[IN].data.value.first && xv_new_content_ok(ins_key) && pool[IN].data.value.second == in_v && g_factory_calls == 1 && (info.cur == W(IN) || guard_valid(info.cur)))))
#define XV_HAVOC_LAZY info.prev = nondet_cell(); info.next = nondet_word(); info.cur = nondet_word(); info.save = nondet_word(); \
   n = nondet_uptr(); pkey = nondet_bool() ? &key : &pool[IN].data.value.first; pool[IN].next = nondet_uptr(); havoc_shared(); havoc_monitors(); \
   g_alloc = nondet_bool(); g_alloc_count = nondet_uint(); g_factory_calls = nondet_uint(); key = nondet_u32(); \
   pool[IN].data.value.first = nondet_u32(); pool[IN].data.value.second = (val_t)nondet_uptr(); pool[IN].data.hash = nondet_size() /* XV_PREV(info) NDEREF(n)->next cur */
#define XV_INV_ERK (bucket < NB && fi_valid(&info, bucket) && guard_valid(info.cur) && er_phase == 0 && er_reclaims == 0 && er_finds_after_mark == 0 && !er_unlink_ok)
#define XV_HAVOC_ERK info.prev = nondet_cell(); info.next = nondet_word(); info.cur = nondet_word(); info.save = nondet_word(); havoc_shared(); havoc_monitors(); \
   er_cur = nondet_uptr(); er_prev = nondet_cell(); mon_obs_curnext = nondet_uptr()
#define XV_INV_ERI (next == mon_obs_curnext && (MP_mark(next) == 0 || (is_node(er_cur) && pool[idx_of(er_cur)].next == next)) /* a marked next field is frozen */ && er_phase == 0 && er_reclaims == 0 && er_finds_after_mark == 0 && !er_unlink_ok && abs_find_calls == 0)
#define XV_HAVOC_ERI next = nondet_word(); mon_obs_curnext = next; havoc_shared(); { unsigned xc = abs_find_calls; havoc_monitors(); abs_find_calls = xc; } /* GDEREF(pos.info.cur)->next */

#include "lowered.h"

/* =====================================================================================================================
 * State: any well-formed map.  Bucket b holds the linked nodes pool[lo(b) .. hi(b)) in this order; keys, hashes, values and
 * delete marks are arbitrary subject to the representation invariant:
 *   - hash(node) = hash function of the key (a function: equal keys have equal hashes; anything else - collisions,
 *     any monotonicity - is allowed), and map_to_bucket(hash) = the bucket the node is linked in;
 *   - the list is ordered by the container's own predicate: no node is greater_or_equal (as the code defines it) than a
 *     node linked after it  (for a total order: strictly increasing);
 *   - linked nodes are not retired; nodes IX, IY are marked, unlinked (their next may still point into a list), possibly retired.
 * ===================================================================================================================== */
unsigned in_n[NB]; kkey_t in_key[NP]; hash_t in_hash[NP]; val_t in_val[NP]; _Bool in_mark[NP]; mptr in_xnext[2];
static unsigned lo(unsigned b) { unsigned s = 0; for (unsigned i = 0; i < NB; i++) if (i < b) s += in_n[i]; return s; }
static unsigned hi(unsigned b) { return lo(b) + in_n[b]; }
static mptr succ_of(unsigned i, unsigned b) { return (i + 1 < hi(b)) ? W(i + 1) : 0; }
static mptr pre_next(unsigned i, unsigned b) { return succ_of(i, b) | (mptr)in_mark[i]; }
static _Bool GE(unsigned i, hash_t h, kkey_t k) { return DATA_greater_or_equal(pool[i].data, h, k); }

hash_t in_hgarbage[NP]; mptr in_ngarbage; _Bool in_xret[2];
unsigned in_cfg_nb, in_cfg_l, in_cfg_memo;      /* the run's shape, for the native replay */
static void choose(void) {
  in_cfg_nb = NB; in_cfg_l = L; in_cfg_memo = XV_MEMO;
  unsigned total = 0;
  for (unsigned b = 0; b < NB; b++) { in_n[b] = nondet_uint(); XV_ASSUME(in_n[b] <= L); total += in_n[b]; }
  XV_ASSUME(total <= L);
  for (unsigned i = 0; i < NP; i++) {
    in_key[i] = nondet_u32(); in_val[i] = (val_t)nondet_uptr(); in_mark[i] = nondet_bool(); in_hash[i] = HASH_FN(in_key[i]); in_hgarbage[i] = nondet_size();
  }
  in_ngarbage = nondet_uptr();
  for (unsigned x = 0; x < 2; x++) {
    in_mark[IX + x] = 1; in_xnext[x] = nondet_uptr(); in_xret[x] = nondet_bool();
    XV_ASSUME(MP_mark(in_xnext[x]) == 1 && (MP_get(in_xnext[x]) == 0 || (is_node(in_xnext[x]) && idx_of(in_xnext[x]) < total)));
  }
}
/* (re-)install the chosen state: everything is a function of the in_* values */
static void install(void) {
  for (unsigned i = 0; i < NP; i++) {
    pool[i].data.value.first = in_key[i]; pool[i].data.value.second = in_val[i];
#if XV_MEMO
    pool[i].data.hash = in_hash[i];
#else
    pool[i].data.hash = in_hgarbage[i];
#endif
    pool[i].next = in_ngarbage;
    g_retired[i] = 0;
  }
  for (unsigned b = 0; b < NB; b++) {
    M.buckets[b] = in_n[b] ? W(lo(b)) : 0;
    for (unsigned i = 0; i < L; i++) if (i >= lo(b) && i < hi(b)) pool[i].next = pre_next(i, b);
  }
  for (unsigned x = 0; x < 2; x++) { pool[IX + x].next = in_xnext[x]; g_retired[IX + x] = in_xret[x]; }
  g_alloc = 0; g_freed = 0; g_published = 0; g_alloc_count = 0; g_factory_calls = 0;
  mon_cas_count = 0; mon_cas_ok_count = 0; xv_clock = 0; mon_mode = MON_OFF; abs_find_calls = 0; er_phase = 0; er_reclaims = 0; er_finds_after_mark = 0; er_unlink_ok = 0;
}
static void build(void) {
  choose(); install();
  for (unsigned b = 0; b < NB; b++)
    for (unsigned i = 0; i < L; i++) if (i >= lo(b) && i < hi(b)) {
      XV_ASSUME(utils_modulo(in_hash[i], NB) == b);
      for (unsigned j = 0; j < L; j++) if (j > i && j < hi(b)) XV_ASSUME(!GE(i, in_hash[j], in_key[j]));
    }
}

/* ---- expected post-state: which linked nodes were unlinked, where a node was inserted, final marks ---- */
_Bool exp_removed[L]; _Bool exp_mark[L]; _Bool exp_ins; unsigned exp_ins_at, exp_ins_bucket;
static void exp_init(void) { for (unsigned i = 0; i < L; i++) { exp_removed[i] = 0; exp_mark[i] = in_mark[i]; } exp_ins = 0; exp_ins_at = 0; exp_ins_bucket = 0; }
/* first unmarked node at index >= from in bucket b that is >= (h, k) in the container's order; hi(b) if none */
static unsigned spec_pos(unsigned b, unsigned from, hash_t h, kkey_t k) {
  unsigned q = hi(b);
  for (unsigned i = L; i-- > 0; ) if (i >= from && i < hi(b) && !in_mark[i] && GE(i, h, k)) q = i;
  return q;
}
static unsigned first_unmarked(unsigned b, unsigned from) {
  unsigned q = hi(b);
  for (unsigned i = L; i-- > 0; ) if (i >= from && i < hi(b) && !in_mark[i]) q = i;
  return q;
}
static void exp_remove_marked(unsigned from, unsigned q) { for (unsigned i = 0; i < L; i++) if (i >= from && i < q && in_mark[i]) exp_removed[i] = 1; }
/* last node in [from, q) that stays; returns L if none */
static unsigned spec_pred(unsigned from, unsigned q) { unsigned p = L; for (unsigned i = 0; i < L; i++) if (i >= from && i < q && !in_mark[i]) p = i; return p; }

/* the post-state is exactly the expected one: lists, marks, payloads, retire counts */
static _Bool post_lists_ok(void) {
  _Bool ok = 1;
  for (unsigned b = 0; b < NB; b++) {
    mptr* cell = &M.buckets[b]; mptr cm = 0;
    for (unsigned i = 0; i < L; i++) if (i >= lo(b) && i < hi(b)) {
      if (exp_ins && exp_ins_bucket == b && exp_ins_at == i) { ok = ok && (*cell == (W(IN) | cm)); cell = &pool[IN].next; cm = 0; }
      if (!exp_removed[i]) { ok = ok && (*cell == (W(i) | cm)); cell = &pool[i].next; cm = exp_mark[i]; }
      else ok = ok && pool[i].next == (succ_of(i, b) | 1);
    }
    if (exp_ins && exp_ins_bucket == b && exp_ins_at == hi(b)) { ok = ok && (*cell == (W(IN) | cm)); cell = &pool[IN].next; cm = 0; }
    ok = ok && (*cell == cm);
  }
  return ok;
}
static _Bool post_payload_ok(void) {
  _Bool ok = 1;
  for (unsigned i = 0; i < L + 2; i++) {
    ok = ok && pool[i].data.value.first == in_key[i] && pool[i].data.value.second == in_val[i];
#if XV_MEMO
    ok = ok && pool[i].data.hash == in_hash[i];
#endif
  }
  ok = ok && pool[IX].next == in_xnext[0] && pool[IY].next == in_xnext[1];
  return ok;
}
unsigned pre_retired_x, pre_retired_y;
static _Bool post_retired_ok(void) {
  _Bool ok = 1;
  for (unsigned i = 0; i < L; i++) ok = ok && g_retired[i] == (exp_removed[i] ? 1u : 0u);
  ok = ok && g_retired[IX] == pre_retired_x && g_retired[IY] == pre_retired_y && g_retired[IN] == 0;
  return ok;
}
static void snapshot(void) { pre_retired_x = g_retired[IX]; pre_retired_y = g_retired[IY]; }

/* ---- executable contract of the internal find (sequential) ------------------------------------------------------------------
 * requires: the lists have the built shape (nothing unlinked yet; marks arbitrary), (prev, save) is a bucket head / a linked node
 *           of this bucket / the unlinked node IY.
 * ensures:  with from = behind save if save is linked and unmarked, else the head of the bucket: every marked node in [from, q)
 *           is unlinked and retired once, q = first unmarked node >= (hash, key) in the container's order (or none);
 *           cur = q, prev/save = the last unmarked node in [from, q) (or the start), next = q's next; returns q && key(q) == key. */
static _Bool shape_intact(void) {
  _Bool ok = 1;
  for (unsigned b = 0; b < NB; b++) {
    ok = ok && M.buckets[b] == (in_n[b] ? W(lo(b)) : 0);
    for (unsigned i = 0; i < L; i++) if (i >= lo(b) && i < hi(b)) ok = ok && MP_get(pool[i].next) == succ_of(i, b) && g_retired[i] == 0;
  }
  return ok;
}
static _Bool hmm_find_contract(struct hmm* self, hash_t hash, kkey_t key, size_t bucket, struct find_info* info) {
  _Bool pre = self == &M && bucket < NB && shape_intact();
  unsigned b = (unsigned)bucket, from = lo(b);
  if (info->save == 0) pre = pre && info->prev == &M.buckets[b];
  else {
    pre = pre && is_node(info->save) && MP_mark(info->save) == 0 && info->prev == &pool[idx_of(info->save)].next
              && (idx_of(info->save) == IY || (idx_of(info->save) >= lo(b) && idx_of(info->save) < hi(b)));
  }
  mptr* start_cell = &M.buckets[b]; guard_t start_guard = 0;
  if (pre && info->save != 0 && idx_of(info->save) != IY && MP_mark(pool[idx_of(info->save)].next) == 0) {
    from = idx_of(info->save) + 1; start_cell = info->prev; start_guard = info->save;
    pre = pre && !GE(idx_of(info->save), hash, key);          /* the start node precedes the key */
  }
  XV_OBL("hmm.find.requires", pre); XV_ASSUME(pre);
  unsigned q = hi(b);
  for (unsigned i = L; i-- > 0; ) if (i >= from && i < hi(b) && MP_mark(pool[i].next) == 0 && GE(i, hash, key)) q = i;
  mptr nxt = q < hi(b) ? W(q) : 0; unsigned pred = L;
  for (unsigned i = L; i-- > 0; ) if (i >= from && i < q) {
    if (MP_mark(pool[i].next)) g_retired[i]++;
    else { pool[i].next = nxt; nxt = W(i); if (pred == L) pred = i; }
  }
  *start_cell = nxt;
  info->cur = q < hi(b) ? W(q) : 0;
  info->next = q < hi(b) ? pool[q].next : 0;
  if (pred < L) { info->prev = &pool[pred].next; info->save = W(pred); } else { info->prev = start_cell; info->save = start_guard; }
  return q < hi(b) && pool[q].data.value.first == key;
}
struct world { struct hmm M; struct node pool[NP]; unsigned retired[NP]; };
static void world_save(struct world* w) { w->M = M; for (unsigned i = 0; i < NP; i++) { w->pool[i] = pool[i]; w->retired[i] = g_retired[i]; } }
static _Bool world_equal(const struct world* w) {
  _Bool ok = 1;
  for (unsigned b = 0; b < NB; b++) ok = ok && w->M.buckets[b] == M.buckets[b];
  for (unsigned i = 0; i < NP; i++) ok = ok && w->retired[i] == g_retired[i] && w->pool[i].next == pool[i].next && w->pool[i].data.hash == pool[i].data.hash
                                         && w->pool[i].data.value.first == pool[i].data.value.first && w->pool[i].data.value.second == pool[i].data.value.second;
  return ok;
}

/* ---- order predicates: loop-free, all hashes and keys -------------------------------------------------------------------- */
kkey_t in_ok[3]; hash_t in_oh[3];
void h_order(void) {
  struct data_t a, b, c;
  for (unsigned i = 0; i < 3; i++) { in_ok[i] = nondet_u32(); in_oh[i] = HASH_FN(in_ok[i]); }
  a.value.first = in_ok[0]; b.value.first = in_ok[1]; c.value.first = in_ok[2];
  a.value.second = (val_t)nondet_uptr(); b.value.second = (val_t)nondet_uptr(); c.value.second = (val_t)nondet_uptr();
  hash_t ha = in_oh[0], hb = in_oh[1], hc = in_oh[2];
  /* data_without_hash: no hash field */
  a.hash = nondet_size(); b.hash = nondet_size(); c.hash = nondet_size();
  {
    _Bool ab = dwoh_greater_or_equal(&a, hb, b.value.first), ba = dwoh_greater_or_equal(&b, ha, a.value.first);
    _Bool bc = dwoh_greater_or_equal(&b, hc, c.value.first), ac = dwoh_greater_or_equal(&a, hc, c.value.first);
    XV_OBL("hmm.order.total", ab || ba);
    XV_OBL("hmm.order.total", (ab && ba) == (a.value.first == b.value.first));
    XV_OBL("hmm.order.total", !(ab && bc) || ac);
    XV_OBL("hmm.order.total", dwoh_get_hash(&a) == ha);
    if (ab && !ba) XV_CANARY("order.nohash.strict");
  }
  /* data_with_hash: the constructors store hash(key) */
  a.hash = ha; b.hash = hb; c.hash = hc;
  {
    struct data_t d = a; d.hash = nondet_size(); dwh_ctor_without_hash(&d);
    XV_OBL("hmm.order.total", d.hash == ha && dwh_get_hash(&a) == ha);
    _Bool ab = dwh_greater_or_equal(&a, hb, b.value.first), ba = dwh_greater_or_equal(&b, ha, a.value.first);
    _Bool bc = dwh_greater_or_equal(&b, hc, c.value.first), ac = dwh_greater_or_equal(&a, hc, c.value.first);
    XV_OBL("hmm.order.total", ab || ba);
    XV_OBL("hmm.order.total", (ab && ba) == (a.value.first == b.value.first));
    XV_OBL("hmm.order.total", !(ab && bc) || ac);
    if (ab && !ba && ha == hb) XV_CANARY("order.hash.collision");
    if (ha > hb && a.value.first < b.value.first) XV_CANARY("order.hash.decreasing");
  }
}

/* ---- map_to_bucket ------------------------------------------------------------------------------------------------------------ */
void h_map_to_bucket(void) {
  hash_t h = nondet_size();
  size_t r = xv_map_to_bucket(h, num_buckets);
  XV_OBL("hmm.map_to_bucket.range", r < NB);
  XV_CANARY("map_to_bucket.reached");
}

/* ---- internal find from any start an iterator / a retry can hand in ------------------------------------------------------- */
unsigned in_b, in_start; kkey_t in_k; hash_t in_kh;    /* in_start: 0 = bucket head, 1 = linked node in_s, 2 = unlinked node IY */
unsigned in_s;
void h_find(void) {
  build(); exp_init(); snapshot();
  in_k = nondet_u32(); hash_t h = HASH_FN(in_k); in_kh = h;
  in_b = utils_modulo(h, NB);
  unsigned b = in_b;
  struct find_info info; info.next = nondet_uptr(); info.cur = nondet_uptr();
  in_start = nondet_uint(); in_s = nondet_uint(); XV_ASSUME(in_start <= 2);
  unsigned from = lo(b);
  XV_ASSUME(info.cur == 0 || (is_node(info.cur) && MP_mark(info.cur) == 0));
  if (in_start == 0) { info.prev = &M.buckets[b]; info.save = 0; }
  else if (in_start == 1) {
    XV_ASSUME(in_s >= lo(b) && in_s < hi(b));
    XV_ASSUME(!GE(in_s, h, in_k));                   /* the start node precedes the key (callers: iterator ++ / erase(iterator), retry of an insert) */
    info.prev = &pool[in_s].next; info.save = W(in_s);
    if (!in_mark[in_s]) from = in_s + 1;
  } else { info.prev = &pool[IY].next; info.save = W(IY); }
  mptr* start_cell = (from == lo(b)) ? &M.buckets[b] : info.prev; guard_t start_guard = (from == lo(b)) ? 0 : info.save;
  _Bool live = 0; for (unsigned i = 0; i < L; i++) if (i >= from && i < hi(b) && !in_mark[i] && in_key[i] == in_k) live = 1;
  unsigned q = spec_pos(b, from, h, in_k);
  exp_remove_marked(from, q);
  unsigned pred = spec_pred(from, q);

  struct find_info info0 = info;
  _Bool r = hmm_find(&M, h, in_k, b, &info, 0);

  XV_OBL("hmm.find.iff_live", r == live);
  XV_OBL("hmm.find.position", info.cur == (q < hi(b) ? W(q) : 0));
  XV_OBL("hmm.find.position", q < hi(b) ? (info.next == pre_next(q, b) && r == (in_key[q] == in_k)) : (info.next == 0 && !r));
  XV_OBL("hmm.find.position", pred < L ? (info.prev == &pool[pred].next && info.save == W(pred)) : (info.prev == start_cell && info.save == start_guard));
  XV_OBL("hmm.find.position", *info.prev == info.cur);
  XV_OBL("hmm.find.frame", post_lists_ok());
  XV_OBL("hmm.find.frame", post_payload_ok());
  XV_OBL("hmm.find.frame", post_retired_ok());
  XV_OBL("hmm.find.frame", !g_alloc && !g_freed);
  /* the executable contract, run on the same pre-state, produces exactly the same post-state and results */
  { static struct world w1; world_save(&w1); install();
    struct find_info info2 = info0; _Bool r2 = hmm_find_contract(&M, h, in_k, b, &info2);
    XV_OBL("hmm.find.contract", r2 == r && info2.cur == info.cur && info2.prev == info.prev && info2.save == info.save && info2.next == info.next);
    XV_OBL("hmm.find.contract", world_equal(&w1)); }
  if (r) XV_CANARY("find.found");
  if (!r && q < hi(b)) XV_CANARY("find.stopped_at_greater");
  if (!r && q == hi(b)) XV_CANARY("find.end_of_bucket");
  if (in_start == 1 && in_mark[in_s]) XV_CANARY("find.restart_from_head");
  if (in_start == 1 && !in_mark[in_s] && pred < L) XV_CANARY("find.from_save");
  if (in_start == 2) XV_CANARY("find.unlinked_start");
  if (in_n[b] >= 2 && exp_removed[lo(b)] && exp_removed[lo(b) + 1]) XV_CANARY("find.removed_two");
  if (q < hi(b) && in_hash[q] == h && in_key[q] != in_k) XV_CANARY("find.colliding_hash");
}

/* ---- contains / find(key) ----------------------------------------------------------------------------------------------------- */
unsigned in_which;
void h_lookup(void) {
  build(); exp_init(); snapshot();
  in_k = nondet_u32(); hash_t h = HASH_FN(in_k); in_kh = h; unsigned b = utils_modulo(h, NB); in_b = b;
  _Bool live = 0; for (unsigned i = 0; i < L; i++) if (i >= lo(b) && i < hi(b) && !in_mark[i] && in_key[i] == in_k) live = 1;
  unsigned q = spec_pos(b, lo(b), h, in_k); exp_remove_marked(lo(b), q); unsigned pred = spec_pred(lo(b), q);
  in_which = nondet_uint(); XV_ASSUME(in_which <= 1);
  if (in_which == 0) {
    _Bool r = hmm_contains(&M, in_k);
    XV_OBL("hmm.find.iff_live", r == live);
    if (r) XV_CANARY("contains.true"); else XV_CANARY("contains.false");
  } else {
    struct iterator it = hmm_find_key(&M, in_k);
    XV_OBL("hmm.find.iff_live", (it.info.cur != 0) == live);
    if (live) {
      XV_OBL("hmm.find.position", it.info.cur == W(q) && in_key[q] == in_k && !in_mark[q] && it.bucket == b && it.map == &M);
      XV_OBL("hmm.find.position", pred < L ? (it.info.prev == &pool[pred].next && it.info.save == W(pred)) : (it.info.prev == &M.buckets[b] && it.info.save == 0));
      XV_CANARY("find_key.found");
    } else { XV_OBL("hmm.find.position", it.info.cur == 0 && it.info.save == 0); XV_CANARY("find_key.end"); }
  }
  XV_OBL("hmm.find.frame", post_lists_ok() && post_payload_ok() && post_retired_ok() && !g_alloc);
}

/* ---- insertion: emplace / emplace_or_get / get_or_emplace / get_or_emplace_lazy / operator[] ------------------------------- */
val_t in_v;
static val_t stub_value_factory(void) { g_factory_calls++; return in_v; }
void h_insert(void) {
  build(); exp_init(); snapshot();
  in_k = nondet_u32(); in_v = (val_t)nondet_uptr(); hash_t h = HASH_FN(in_k); in_kh = h; unsigned b = utils_modulo(h, NB); in_b = b;
  unsigned q = spec_pos(b, lo(b), h, in_k); exp_remove_marked(lo(b), q); unsigned pred = spec_pred(lo(b), q);
  _Bool present = q < hi(b) && in_key[q] == in_k;
  if (!present) { exp_ins = 1; exp_ins_bucket = b; exp_ins_at = q; }
  in_which = nondet_uint(); XV_ASSUME(in_which <= 4);
#ifdef XV_ONLY_WHICH
  in_which = XV_ONLY_WHICH;          /* one entry point per run (thorough cross-check with the real find inlined) */
#endif
  struct pair_ib r; struct accessor acc; _Bool have_it = 1, lazy = 0; val_t v_expected = in_v;
  r.first = xv_it_blank(); r.second = nondet_bool(); acc.guard = 0;
  if (in_which == 0) { r.second = hmm_emplace(&M, in_k, in_v); have_it = 0; }
  else if (in_which == 1) r = hmm_emplace_or_get(&M, in_k, in_v);
  else if (in_which == 2) { r = hmm_get_or_emplace(&M, in_k, in_v); lazy = 1; }
  else if (in_which == 3) { r = hmm_get_or_emplace_lazy(&M, in_k, stub_value_factory); lazy = 1; }
  else { acc = hmm_subscript(&M, in_k); have_it = 0; lazy = 1; v_expected = XV_DEFAULT_VALUE; }
  if (in_which != 4) XV_OBL("hmm.insert.iff_absent", r.second == !present);
  mptr cur_expected = present ? W(q) : W(IN);
  if (have_it) {
    XV_OBL("hmm.insert.iff_absent", r.first.info.cur == cur_expected && r.first.bucket == b && r.first.map == &M);
    XV_OBL("hmm.insert.iff_absent", pred < L ? (r.first.info.prev == &pool[pred].next && r.first.info.save == W(pred)) : (r.first.info.prev == &M.buckets[b] && r.first.info.save == 0));
  }
  if (in_which == 4) XV_OBL("hmm.insert.iff_absent", acc.guard == cur_expected);
  if (!present) {
    XV_OBL("hmm.insert.iff_absent", g_alloc && g_alloc_count == 1 && g_published && !g_freed);
    XV_OBL("hmm.insert.iff_absent", pool[IN].data.value.first == in_k && pool[IN].data.value.second == v_expected);
#if XV_MEMO
    XV_OBL("hmm.insert.iff_absent", pool[IN].data.hash == h);
#endif
    if (in_which == 3) XV_OBL("hmm.insert.iff_absent", g_factory_calls == 1);
    XV_CANARY("insert.inserted");
    if (q < hi(b)) XV_CANARY("insert.in_front_of_a_node"); else XV_CANARY("insert.at_end");
    if (pred < L) XV_CANARY("insert.behind_a_node");
  } else {
    if (lazy) XV_OBL("hmm.insert.iff_absent", !g_alloc && g_factory_calls == 0);     /* nothing is constructed when the key is present */
    else XV_OBL("hmm.insert.iff_absent", g_alloc && g_alloc_count == 1 && g_freed && !g_published);   /* the speculative node is destroyed */
    XV_CANARY("insert.present");
  }
  XV_OBL("hmm.insert.iff_absent", post_lists_ok());        /* exact list: sorted position, nothing else moved */
  XV_OBL("hmm.insert.iff_absent", post_payload_ok() && post_retired_ok());
#ifndef XV_ONLY_WHICH
  if (in_which == 0) XV_CANARY("insert.emplace"); if (in_which == 1) XV_CANARY("insert.emplace_or_get"); if (in_which == 2) XV_CANARY("insert.get_or_emplace");
  if (in_which == 3) XV_CANARY("insert.get_or_emplace_lazy"); if (in_which == 4) XV_CANARY("insert.subscript");
#endif
}

/* ---- erase(key) ----------------------------------------------------------------------------------------------------------------- */
void h_erase_key(void) {
  build(); exp_init(); snapshot();
  in_k = nondet_u32(); hash_t h = HASH_FN(in_k); in_kh = h; unsigned b = utils_modulo(h, NB); in_b = b;
  unsigned q = spec_pos(b, lo(b), h, in_k); exp_remove_marked(lo(b), q);
  _Bool present = q < hi(b) && in_key[q] == in_k;
  if (present) { exp_removed[q] = 1; exp_mark[q] = 1; }
  _Bool r = hmm_erase_key(&M, in_k);
  XV_OBL("hmm.erase.iff_present", r == present);
  XV_OBL("hmm.erase.iff_present", post_lists_ok());
  XV_OBL("hmm.erase.iff_present", post_payload_ok() && !g_alloc);
  XV_OBL("hmm.erase.iff_present", post_retired_ok());      /* the erased node and the marked nodes passed are retired exactly once, nothing else */
  if (r) XV_CANARY("erase_key.true"); else XV_CANARY("erase_key.false");
  if (r && q > lo(b) && in_mark[q - 1]) XV_CANARY("erase_key.behind_marked");
}

/* =====================================================================================================================
 * Iterator states as other handles can leave them.  The iterator is in bucket b; cur is guarded and is either a linked node
 * (marked or not) or the unlinked marked node IX, whose place in the order is "in front of linked node in_ip" (the list may
 * since have received an equal key exactly there); save is null (prev = bucket head), a linked node in front of cur
 * (marked or not, not necessarily the direct predecessor any more), or the unlinked marked node IY.
 * ===================================================================================================================== */
unsigned in_ib, in_icur, in_ic, in_ip, in_isave, in_is;
unsigned it_from, it_t;      /* where a find from this iterator starts; first index behind cur */
static void build_iterator(struct iterator* it) {
  in_ib = nondet_uint(); XV_ASSUME(in_ib < NB); unsigned b = in_ib;
  in_icur = nondet_uint(); in_ic = nondet_uint(); in_ip = nondet_uint(); in_isave = nondet_uint(); in_is = nondet_uint();
  XV_ASSUME(in_icur <= 1 && in_isave <= 2);
  it->map = &M; it->bucket = b; it->info.next = nondet_uptr();
  unsigned limit;
  if (in_icur == 0) { XV_ASSUME(in_ic >= lo(b) && in_ic < hi(b)); it->info.cur = W(in_ic); limit = in_ic; it_t = in_ic + 1; }
  else {
    XV_ASSUME(in_ip >= lo(b) && in_ip <= hi(b)); it->info.cur = W(IX); limit = in_ip; it_t = in_ip;
    XV_ASSUME(utils_modulo(in_hash[IX], NB) == b);
    for (unsigned i = 0; i < L; i++) if (i >= lo(b) && i < hi(b)) {
      if (i < in_ip) XV_ASSUME(!GE(i, in_hash[IX], in_key[IX]));
      else XV_ASSUME(!GE(IX, in_hash[i], in_key[i]) || (i == in_ip && in_key[i] == in_key[IX]));
    }
  }
  it_from = lo(b);
  if (in_isave == 0) { it->info.prev = &M.buckets[b]; it->info.save = 0; }
  else if (in_isave == 1) {
    XV_ASSUME(in_is >= lo(b) && in_is < limit); it->info.prev = &pool[in_is].next; it->info.save = W(in_is);
    if (!in_mark[in_is]) it_from = in_is + 1;
  } else { it->info.prev = &pool[IY].next; it->info.save = W(IY); }
}
/* first linked node of the first non-empty bucket behind b (0 if none), its bucket in *nb */
static mptr first_of_later_bucket(unsigned b, unsigned* nb) {
  mptr w = 0; *nb = NB - 1;
  for (unsigned x = NB; x-- > 0; ) if (x > b && in_n[x] > 0) { w = W(lo(x)); *nb = x; }
  return w;
}
/* the iterator designates a linked node, consistently: used as postcondition of every iterator operation */
static _Bool it_consistent(const struct iterator* it) {
  if (it->info.cur == 0) return 1;
  if (it->bucket >= NB || it->map != &M) return 0;
  if (*it->info.prev != it->info.cur) return 0;
  if (it->info.save == 0) return it->info.prev == &M.buckets[it->bucket];
  return is_node(it->info.save) && it->info.prev == &pool[idx_of(it->info.save)].next;
}
/* common postcondition of ++ / erase(iterator) when they had to go through find (cur was marked or prev no longer led to cur) */
static void expect_slow_path(struct iterator* it, unsigned b, mptr* exp_cur, mptr** exp_prev, guard_t* exp_save, unsigned* exp_bucket, const struct iterator* pre) {
  unsigned q = first_unmarked(b, it_t);
  exp_remove_marked(it_from, q);
  unsigned pred = spec_pred(it_from, q);
  if (q < hi(b)) {
    *exp_cur = W(q); *exp_bucket = b;
    if (pred < L) { *exp_prev = &pool[pred].next; *exp_save = W(pred); }
    else if (it_from == lo(b)) { *exp_prev = &M.buckets[b]; *exp_save = 0; }
    else { *exp_prev = pre->info.prev; *exp_save = pre->info.save; }
  } else { *exp_cur = first_of_later_bucket(b, exp_bucket); *exp_save = 0; *exp_prev = 0; }
}
/* no unmarked node between the old position and the new one is left out; the new position is behind the old one */
static _Bool no_skip(unsigned b, const struct iterator* post) {
  _Bool ok = 1; unsigned stop = hi(b);
  if (post->info.cur != 0) {
    if (!is_node(post->info.cur) || MP_mark(post->info.cur)) return 0;
    unsigned ni = idx_of(post->info.cur);
    if (post->bucket == b) { if (ni == IN || ni >= hi(b) || ni < it_t) return 0; stop = ni; }
    else { if (post->bucket < b || post->bucket >= NB || in_n[post->bucket] == 0 || ni != lo(post->bucket)) return 0; }
  }
  for (unsigned i = 0; i < L; i++) if (i >= it_t && i < stop && !in_mark[i]) ok = 0;
  for (unsigned x = 0; x < NB; x++) if (x > b && (post->info.cur == 0 || x < post->bucket) && in_n[x] != 0) ok = 0;
  return ok;
}

void h_inc(void) {
  build(); exp_init(); snapshot();
  struct iterator it; build_iterator(&it); struct iterator pre = it; unsigned b = in_ib;
  mptr exp_cur; mptr* exp_prev = 0; guard_t exp_save; unsigned exp_bucket = b;
  _Bool fast = (in_icur == 0 && !in_mark[in_ic]);
  if (fast) {
    if (in_ic + 1 < hi(b)) { exp_cur = W(in_ic + 1); exp_prev = &pool[in_ic].next; exp_save = W(in_ic); }
    else { exp_cur = first_of_later_bucket(b, &exp_bucket); exp_save = 0; }
  } else expect_slow_path(&it, b, &exp_cur, &exp_prev, &exp_save, &exp_bucket, &pre);

  it_inc(&it);

  XV_OBL("hmm.iter.inc.no_skip", no_skip(b, &it));
  XV_OBL("hmm.iter.inc.next_live", it.info.cur == exp_cur);
  XV_OBL("hmm.iter.inc.next_live", it.info.cur != pre.info.cur);
  if (exp_cur != 0) XV_OBL("hmm.iter.inc.next_live", it.bucket == exp_bucket && it.info.save == exp_save && it.info.prev == (exp_prev ? exp_prev : &M.buckets[exp_bucket]));
  XV_OBL("hmm.iter.inc.next_live", it_consistent(&it) && it.map == &M);
  XV_OBL("hmm.iter.inc.frame", post_lists_ok());
  XV_OBL("hmm.iter.inc.frame", post_payload_ok() && post_retired_ok() && !g_alloc);
  if (fast && exp_cur != 0 && exp_bucket == b) XV_CANARY("inc.fast");
  if (fast && in_ic + 1 < hi(b) && in_mark[in_ic + 1]) XV_CANARY("inc.fast_to_marked");
  if (!fast && in_icur == 0 && exp_cur != 0 && exp_bucket == b) XV_CANARY("inc.cur_marked_linked");
  if (in_icur == 1 && exp_cur != 0 && exp_bucket == b) XV_CANARY("inc.cur_unlinked");
  if (in_icur == 1 && in_ip < hi(b) && !in_mark[in_ip] && in_key[in_ip] == in_key[IX]) XV_CANARY("inc.key_reinserted");
  if (!fast && in_isave == 1 && it_from > lo(b) && exp_cur != 0 && exp_bucket == b) XV_CANARY("inc.slow_from_save");
  if (in_isave == 2) XV_CANARY("inc.save_unlinked");
#if L >= 3
  if (in_isave == 1 && in_icur == 0 && in_is + 1 < in_ic) XV_CANARY("inc.successor_of_save_changed");
#endif
  if (exp_cur == 0) XV_CANARY("inc.to_end");
#if NB > 1
  if (exp_cur != 0 && exp_bucket != b) XV_CANARY("inc.to_next_bucket");
#endif
}

/* ---- operator++(int): returns the old position, advances like operator++ ------------------------------------------------------ */
void h_postinc(void) {
  build(); exp_init(); snapshot();
  struct iterator it; build_iterator(&it); struct iterator pre = it; unsigned b = in_ib;
  mptr exp_cur; mptr* exp_prev = 0; guard_t exp_save; unsigned exp_bucket = b;
  _Bool fast = (in_icur == 0 && !in_mark[in_ic]);
  if (fast) {
    if (in_ic + 1 < hi(b)) { exp_cur = W(in_ic + 1); exp_prev = &pool[in_ic].next; exp_save = W(in_ic); }
    else { exp_cur = first_of_later_bucket(b, &exp_bucket); exp_save = 0; }
  } else expect_slow_path(&it, b, &exp_cur, &exp_prev, &exp_save, &exp_bucket, &pre);

  struct iterator old = it_postinc(&it);

  /* the returned iterator is the complete old position: in particular it keeps the guard (save) for the node its prev points into */
  XV_OBL("hmm.iter.postinc.copy", old.map == pre.map && old.bucket == pre.bucket && old.info.prev == pre.info.prev && old.info.cur == pre.info.cur && old.info.save == pre.info.save);
  XV_OBL("hmm.iter.inc.no_skip", no_skip(b, &it));
  XV_OBL("hmm.iter.inc.next_live", it.info.cur == exp_cur && it.info.cur != pre.info.cur);
  if (exp_cur != 0) XV_OBL("hmm.iter.inc.next_live", it.bucket == exp_bucket && it.info.save == exp_save && it.info.prev == (exp_prev ? exp_prev : &M.buckets[exp_bucket]));
  XV_OBL("hmm.iter.inc.next_live", it_consistent(&it) && it.map == &M);
  XV_OBL("hmm.iter.inc.frame", post_lists_ok() && post_payload_ok() && post_retired_ok() && !g_alloc);
  if (fast) XV_CANARY("postinc.fast"); else XV_CANARY("postinc.slow");
}

/* ---- special member functions, reset, operator== ---------------------------------------------------------------------------------- */
static struct iterator* sp_copy_assign(struct iterator* d, const struct iterator* s) {
#ifdef XV_DEFAULTED_it_copy_assign
  *d = *s; return d;
#else
  return it_copy_assign(d, s);
#endif
}
static struct iterator* sp_move_assign(struct iterator* d, struct iterator* s) {
#ifdef XV_DEFAULTED_it_move_assign
  if (d != s) { *d = *s; s->info.cur = 0; s->info.save = 0; } return d;      /* member-wise move: guard_ptr's move assignment empties the source */
#else
  return it_move_assign(d, s);
#endif
}
static void sp_copy_ctor(struct iterator* d, const struct iterator* s) {
#ifdef XV_DEFAULTED_it_copy_ctor
  *d = *s;
#else
  *d = xv_it_blank(); it_copy_ctor(d, s);
#endif
}
static void sp_move_ctor(struct iterator* d, struct iterator* s) {
#ifdef XV_DEFAULTED_it_move_ctor
  *d = *s; s->info.cur = 0; s->info.save = 0;
#else
  *d = xv_it_blank(); it_move_ctor(d, s);
#endif
}
static _Bool same_pos(const struct iterator* a, const struct iterator* b) {
  return a->map == b->map && a->bucket == b->bucket && a->info.prev == b->info.prev && a->info.cur == b->info.cur && a->info.save == b->info.save; }
void h_special(void) {
  build(); exp_init(); snapshot();
  struct iterator a; build_iterator(&a); struct iterator a0 = a;
  /* a second iterator at any other consistent position (begin of some bucket, or end) */
  struct iterator t = nondet_bool() ? hmm_begin(&M) : hmm_end(&M);
  struct iterator t0 = t;
  XV_OBL("hmm.iter.reset.releases", it_eq(&a, &t) == (a.info.cur == t.info.cur) && it_ne(&a, &t) == (a.info.cur != t.info.cur));
  unsigned which = nondet_uint(); XV_ASSUME(which < 4);
  if (which == 0) {
    struct iterator* r = sp_copy_assign(&t, &a);
    XV_OBL("hmm.iter.special.memberwise", r == &t && same_pos(&t, &a0) && same_pos(&a, &a0));
    r = sp_copy_assign(&t, &t);
    XV_OBL("hmm.iter.special.memberwise", r == &t && same_pos(&t, &a0));
    XV_CANARY("special.copy_assign");
  } else if (which == 1) {
    struct iterator* r = sp_move_assign(&t, &a);
    XV_OBL("hmm.iter.special.memberwise", r == &t && same_pos(&t, &a0));
    XV_OBL("hmm.iter.special.memberwise", (a.info.cur == 0 || a.info.cur == a0.info.cur) && (a.info.save == 0 || a.info.save == a0.info.save));   /* the source keeps nothing it did not have */
    XV_CANARY("special.move_assign");
  } else if (which == 2) {
    struct iterator c; sp_copy_ctor(&c, &a);
    XV_OBL("hmm.iter.special.memberwise", same_pos(&c, &a0) && same_pos(&a, &a0));
    XV_CANARY("special.copy_ctor");
  } else {
    struct iterator c; sp_move_ctor(&c, &a);
    XV_OBL("hmm.iter.special.memberwise", same_pos(&c, &a0) && (a.info.cur == 0 || a.info.cur == a0.info.cur) && (a.info.save == 0 || a.info.save == a0.info.save));
    XV_CANARY("special.move_ctor");
  }
  it_reset(&t);
  { struct iterator e = hmm_end(&M);
    XV_OBL("hmm.iter.reset.releases", t.info.cur == 0 && t.info.save == 0 && t.info.prev == 0 && t.bucket == e.bucket && t.map == &M && it_eq(&t, &e)); }
  XV_OBL("hmm.iter.special.memberwise", post_lists_ok() && post_payload_ok() && post_retired_ok() && !g_alloc);      /* none of this touches the map */
}

/* ---- erase(iterator) ---------------------------------------------------------------------------------------------------------- */
void h_erase_it(void) {
  build(); exp_init(); snapshot();
  struct iterator it; build_iterator(&it); struct iterator pre = it; unsigned b = in_ib;
  mptr exp_cur; mptr* exp_prev = 0; guard_t exp_save; unsigned exp_bucket = b;
  _Bool direct = in_icur == 0 && *it.info.prev == W(in_ic);
  if (in_icur == 0) { exp_mark[in_ic] = 1; exp_removed[in_ic] = 1; }
  if (direct) {
    if (in_ic + 1 < hi(b)) { exp_cur = W(in_ic + 1); exp_prev = pre.info.prev; exp_save = pre.info.save; }
    else { exp_cur = first_of_later_bucket(b, &exp_bucket); exp_save = 0; }
  } else {
    _Bool m = 0; if (in_icur == 0) { m = in_mark[in_ic]; in_mark[in_ic] = 1; }      /* cur is marked by the time find runs */
    expect_slow_path(&it, b, &exp_cur, &exp_prev, &exp_save, &exp_bucket, &pre);
    if (in_icur == 0) in_mark[in_ic] = m;
  }

  struct iterator r = hmm_erase_it(&M, it);

  XV_OBL("hmm.iter.erase.exact", post_lists_ok());           /* cur marked and unlinked; besides that only marked nodes on the way were unlinked */
  XV_OBL("hmm.iter.erase.exact", post_retired_ok());
  XV_OBL("hmm.iter.erase.exact", post_payload_ok() && !g_alloc);
  XV_OBL("hmm.iter.erase.exact", MP_mark(pool[idx_of(pre.info.cur)].next) == 1);
  XV_OBL("hmm.iter.erase.exact", r.info.cur == exp_cur && r.info.cur != pre.info.cur);
  XV_OBL("hmm.iter.erase.exact", no_skip(b, &r));
  if (exp_cur != 0) XV_OBL("hmm.iter.erase.exact", r.bucket == exp_bucket && r.info.save == exp_save && r.info.prev == (exp_prev ? exp_prev : &M.buckets[exp_bucket]));
  XV_OBL("hmm.iter.erase.exact", it_consistent(&r) && r.map == &M);
  if (direct) { if (!in_mark[in_ic]) XV_CANARY("erase_it.direct"); else XV_CANARY("erase_it.already_marked"); }
  if (!direct && in_icur == 0) XV_CANARY("erase_it.prev_changed");
  if (in_icur == 1) XV_CANARY("erase_it.cur_unlinked");
  if (direct && in_ic + 1 < hi(b) && in_mark[in_ic + 1]) XV_CANARY("erase_it.returns_marked_successor");
  if (exp_cur == 0) XV_CANARY("erase_it.to_end");
#if NB > 1
  if (exp_cur != 0 && exp_bucket != b) XV_CANARY("erase_it.to_next_bucket");
#endif
}

/* ---- begin / end ---------------------------------------------------------------------------------------------------------------- */
void h_begin(void) {
  build(); exp_init(); snapshot();
  in_which = nondet_uint(); XV_ASSUME(in_which <= 1);
  if (in_which == 0) {
    struct iterator it = hmm_begin(&M);
    unsigned eb = 0; mptr e = in_n[0] ? W(0) : first_of_later_bucket(0, &eb);
    XV_OBL("hmm.iter.begin.first", it.info.cur == e && it.map == &M && it.info.save == 0);
    if (e != 0) { XV_OBL("hmm.iter.begin.first", it.bucket == eb && it.info.prev == &M.buckets[eb] && it_consistent(&it)); XV_CANARY("begin.nonempty"); }
    else XV_CANARY("begin.empty");
#if NB > 1
    if (e != 0 && eb != 0) XV_CANARY("begin.later_bucket");
#endif
  } else {
    struct iterator it = hmm_end(&M);
    XV_OBL("hmm.iter.begin.first", it.info.cur == 0 && it.map == &M);
    XV_CANARY("begin.end");
  }
  XV_OBL("hmm.iter.begin.first", post_lists_ok() && post_payload_ok() && post_retired_ok() && !g_alloc);
}

/* =====================================================================================================================
 * INT: operator++ with one step of another handle (insert a node anywhere / mark a node / unlink a marked node) placed
 * between any two of its own atomic steps.
 * ===================================================================================================================== */
#if defined(XV_INT) && !defined(XV_ENV_ARBITRARY)
unsigned env_budget; _Bool env_inserted, env_did_mark, env_did_unlink; unsigned env_zb, env_zpos, env_marked, env_unlinked;
void xv_env(void) {
  if (!env_on || env_budget == 0 || !nondet_bool() || !shape_intact()) return;
  env_budget--;
  unsigned kind = nondet_uint(), j = nondet_uint(), zb = nondet_uint();
  XV_ASSUME(kind <= 2 && zb < NB);
  if (kind == 0) {                /* another handle inserts pool[IN] in front of linked node j of bucket zb (j == hi: at the end) */
    XV_ASSUME(j >= lo(zb) && j <= hi(zb));
    mptr* cell = (j == lo(zb)) ? &M.buckets[zb] : &pool[j - 1].next;
    XV_ASSUME(MP_mark(*cell) == 0 && utils_modulo(in_hash[IN], NB) == zb);
    for (unsigned i = 0; i < L; i++) if (i >= lo(zb) && i < hi(zb)) { if (i < j) XV_ASSUME(!GE(i, in_hash[IN], in_key[IN])); else XV_ASSUME(!GE(IN, in_hash[i], in_key[i])); }
    pool[IN].next = *cell; *cell = W(IN); g_alloc = 1; g_published = 1;
    env_inserted = 1; env_zb = zb; env_zpos = j;
  } else if (kind == 1) {         /* another handle marks linked node j (first half of an erase) */
    XV_ASSUME(j < lo(NB - 1) + in_n[NB - 1] && MP_mark(pool[j].next) == 0);
    pool[j].next |= 1; env_did_mark = 1; env_marked = j;
  } else {                        /* another handle unlinks the marked node j and retires it */
    XV_ASSUME(zb < NB && j >= lo(zb) && j < hi(zb) && MP_mark(pool[j].next) == 1);
    mptr* cell = (j == lo(zb)) ? &M.buckets[zb] : &pool[j - 1].next;
    XV_ASSUME(*cell == W(j));
    *cell = MP_get(pool[j].next); g_retired[j]++; env_did_unlink = 1; env_unlinked = j;
  }
}
static _Bool dead(unsigned i) { return in_mark[i] || (env_did_mark && env_marked == i); }
void h_inc_int(void) {
  build(); exp_init(); snapshot();
  struct iterator it; build_iterator(&it); struct iterator pre = it; unsigned b = in_ib;
  env_budget = 1; env_inserted = 0; env_did_mark = 0; env_did_unlink = 0; env_on = 1;
  it_inc(&it);
  env_on = 0;
  XV_OBL("hmm.iter.inc.progress", it.info.cur != pre.info.cur);      /* the same element is not yielded again (its key was not re-inserted) */
  /* the new position is behind the old one, and no node that stayed unmarked all the time lies between */
  _Bool ok = 1; unsigned nb = NB, stop = 0;
  if (it.info.cur != 0) {
    ok = is_node(it.info.cur) && MP_mark(it.info.cur) == 0; unsigned ni = ok ? idx_of(it.info.cur) : 0;
    if (ok && ni == IN) { ok = env_inserted; nb = env_zb; stop = env_zpos; }
    else if (ok) { ok = ni < L; for (unsigned x = 0; x < NB; x++) if (ni >= lo(x) && ni < hi(x)) nb = x; ok = ok && nb < NB; stop = ni; }
    ok = ok && it.bucket == nb && (nb > b || (nb == b && stop >= it_t));
  }
  XV_OBL("hmm.iter.inc.progress", ok);
  if (ok) {
    _Bool none_skipped = 1;
    for (unsigned i = 0; i < L; i++) {
      _Bool between = 0;
      for (unsigned x = 0; x < NB; x++) if (i >= lo(x) && i < hi(x)) {
        if (x == b && i >= it_t && (nb > b || i < stop)) between = 1;
        if (x > b && x < nb) between = 1;
        if (x > b && x == nb && i < stop) between = 1;
      }
      if (between && !dead(i)) none_skipped = 0;
    }
    XV_OBL("hmm.iter.inc.no_skip", none_skipped);
  }
  if (env_inserted && env_zb == b && in_icur == 0 && env_zpos == in_ic + 1) XV_CANARY("inc_int.insert_behind_cur");
  if (env_did_mark && in_icur == 0 && env_marked == in_ic) XV_CANARY("inc_int.cur_marked_meanwhile");
  if (env_did_unlink && in_icur == 0 && env_unlinked == in_ic + 1) XV_CANARY("inc_int.successor_unlinked");
  if (env_budget == 1) XV_CANARY("inc_int.no_interference");
}
#endif

/* =====================================================================================================================
 * INT with arbitrary interference (every shared cell may change before every atomic step): commit obligations.
 * Retry loops are cut by the invariants XV_INV_*; the monitors in mon_cas / mon_reclaim check every CAS and reclaim.
 * ===================================================================================================================== */
#ifdef XV_ENV_ARBITRARY
static void int_setup(int mode) { choose(); install(); havoc_shared(); mon_mode = mode; mon_val_ok = 0; mon_val_cell = 0; mon_val_value = 0; mon_ld_cell[0] = 0; mon_ld_cell[1] = 0; }
static void int_start(struct find_info* info, unsigned b) {      /* any start find accepts */
  info->prev = nondet_cell(); info->save = nondet_word(); info->cur = nondet_word(); info->next = nondet_uptr();
  XV_ASSUME(fi_valid(info, b) && guard_valid(info->cur) && (info->cur == 0 || info->cur != info->save));
}
void h_find_int(void) {
  int_setup(MON_FIND); g_alloc = 1; g_published = 1;      /* all NP nodes are ordinary shared nodes here */
  kkey_t k = nondet_u32(); hash_t h = HASH_FN(k); unsigned b = nondet_uint(); XV_ASSUME(b < NB);
  struct find_info info; int_start(&info, b);
  env_on = 1;
  _Bool r = hmm_find_int(&M, h, k, b, &info, 0);
  env_on = 0;
  /* only the returning paths arrive here (the cut loop / retry edges end in assume(false) after their invariant was checked) */
  XV_OBL("hmm.find.commit", fi_valid(&info, b) && guard_valid(info.cur));
  XV_OBL("hmm.find.commit", mon_val_ok && mon_val_cell == info.prev && mon_val_value == info.cur);       /* cur was read from prev, validated by acquire_if_equal */
  if (info.cur == 0) { XV_OBL("hmm.find.commit", !r); XV_CANARY("find_int.end"); }
  else {
    /* decision on a node that was still linked from prev after its own next was read unmarked */
    XV_OBL("hmm.find.commit", mon_ld_cell[1] == info.prev && mon_ld_val[1] == info.cur && mon_ld_cell[0] == &pool[idx_of(info.cur)].next && mon_ld_val[0] == info.next && MP_mark(info.next) == 0);
    XV_OBL("hmm.find.commit", GE(idx_of(info.cur), h, k) && r == (pool[idx_of(info.cur)].data.value.first == k));
    XV_OBL("hmm.find.commit", mon_cas_count == 0);      /* no CAS in the iteration that returns */
    if (r) XV_CANARY("find_int.found"); else XV_CANARY("find_int.greater");
  }
}
void h_insert_int(void) {
  int_setup(MON_INSERT);
  ins_key = nondet_u32(); in_v = (val_t)nondet_uptr(); in_which = nondet_uint(); XV_ASSUME(in_which <= 1);
  unsigned b = utils_modulo(HASH_FN(ins_key), NB);
  env_on = 1; struct pair_ib r;
  if (in_which == 0) r = hmm_emplace_or_get_int(&M, ins_key, in_v);
  else { xv_cap_value_factory = stub_value_factory; r = hmm_do_get_or_emplace_lazy_int(&M, ins_key, hmm_goel_node_factory); }
  env_on = 0;
  XV_OBL("hmm.insert.commit", r.first.bucket == b && r.first.map == &M && fi_valid(&r.first.info, b));
  if (r.second) {      /* inserted: this very call's CAS linked the node (every CAS was checked by the monitor) */
    XV_OBL("hmm.insert.commit", mon_cas_ok_count == 1 && mon_cas_last_ok && g_published && !g_freed && g_alloc_count == 1);
    XV_OBL("hmm.insert.commit", r.first.info.cur == W(IN) && r.first.info.prev == mon_cas_cell);
    XV_OBL("hmm.insert.commit", pool[IN].data.value.first == ins_key && pool[IN].data.value.second == in_v);
    XV_CANARY("insert_int.inserted");
  } else {             /* not inserted: the element returned was validated by find and has the key; nothing was published; the node is gone */
    XV_OBL("hmm.insert.commit", mon_cas_ok_count == 0 && !g_published && (g_alloc ? g_freed : 1));
    XV_OBL("hmm.insert.commit", r.first.info.cur == abs_find_cur && abs_find_cur != 0 && pool[idx_of(abs_find_cur)].data.value.first == ins_key);
    if (in_which == 0) XV_OBL("hmm.insert.commit", g_alloc && g_freed);
    XV_CANARY("insert_int.present");
    if (in_which == 1 && !g_alloc) XV_CANARY("insert_int.lazy_never_built");
    if (in_which == 1 && g_alloc) XV_CANARY("insert_int.lazy_built_then_lost");
  }
}
void h_erase_key_int(void) {
  int_setup(MON_ERASE_KEY);
  kkey_t k = nondet_u32();
  env_on = 1;
  _Bool r = hmm_erase_key_int(&M, k);
  env_on = 0;
  if (r) {   /* true only after this call's marking CAS succeeded; the node is retired by this call iff its unlink CAS succeeded, else find is re-run */
    XV_OBL("hmm.erase.commit", er_phase == 2 && er_cur != 0 && pool[idx_of(er_cur)].data.value.first == k);
    XV_OBL("hmm.erase.commit", er_unlink_ok ? (er_reclaims == 1 && er_finds_after_mark == 0) : (er_reclaims == 0 && er_finds_after_mark == 1));
    if (er_unlink_ok) XV_CANARY("erase_key_int.unlinked"); else XV_CANARY("erase_key_int.left_to_find");
  } else { XV_OBL("hmm.erase.commit", er_phase == 0 && er_reclaims == 0 && mon_cas_count == 0); XV_CANARY("erase_key_int.false"); }
}
void h_erase_it_int(void) {
  int_setup(MON_ERASE_IT);
  struct iterator it; unsigned b = nondet_uint(); XV_ASSUME(b < NB);
  it.map = &M; it.bucket = b; int_start(&it.info, b);
  XV_ASSUME(it.info.cur != 0);
  er_cur = it.info.cur; er_prev = it.info.prev; mon_obs_curnext = nondet_uptr();
  struct iterator pre = it;
  env_on = 1;
  struct iterator r = hmm_erase_it_int(&M, it);
  env_on = 0;
  XV_OBL("hmm.iter.erase.commit", er_phase == 2 && MP_mark(mon_obs_curnext) == 1);      /* cur->next was seen marked (by this call or another) before the unlink attempt */
  XV_OBL("hmm.iter.erase.commit", er_unlink_ok ? (er_reclaims == 1 && abs_find_calls == 0) : (er_reclaims == 0 && abs_find_calls == 1));
  XV_OBL("hmm.iter.erase.commit", r.map == &M);     /* that the successor differs from cur is a list-shape fact (SEQ: hmm.iter.erase.exact) */
  if (er_unlink_ok) { XV_OBL("hmm.iter.erase.commit", r.info.cur == MP_get(mon_obs_curnext) || (MP_get(mon_obs_curnext) == 0 && r.info.save == 0)); XV_CANARY("erase_it_int.unlinked"); }
  else { XV_OBL("hmm.iter.erase.commit", r.info.cur == abs_find_cur || (abs_find_cur == 0 && r.info.save == 0)); XV_CANARY("erase_it_int.left_to_find"); }
  if (mon_cas_count == 1) XV_CANARY("erase_it_int.already_marked");
}
#endif
