#include "xv.h"
