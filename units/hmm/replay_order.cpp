// native replay for hmm.order.total: the real data_without_hash / data_with_hash ::greater_or_equal on the keys and hashes cbmc found
// exit 0 = a total order consistent with key equality on these three elements, 1 = violation reproduced
#include <xenium/harris_michael_hash_map.hpp>
#include <xenium/reclamation/generic_epoch_based.hpp>
#include <cstdio>
#include <cstdlib>
#include <cstring>
#include <map>
#include <string>
static std::map<std::string, unsigned long long> A;
static std::map<unsigned, std::size_t> g_hash;
struct table_hash { std::size_t operator()(unsigned k) const { auto it = g_hash.find(k); return it == g_hash.end() ? 0 : it->second; } };
template <bool MEMO> int run(const unsigned* k) {
  using M = xenium::harris_michael_hash_map<unsigned, unsigned long, xenium::policy::reclaimer<xenium::reclamation::epoch_based<>>,
    xenium::policy::hash<table_hash>, xenium::policy::memoize_hash<MEMO>>;
  using D = typename M::data_t;
  D d[3] = {D(table_hash{}(k[0]), k[0], 0ul), D(table_hash{}(k[1]), k[1], 0ul), D(table_hash{}(k[2]), k[2], 0ul)};
  auto ge = [&](int i, int j) { return d[i].greater_or_equal(table_hash{}(k[j]), k[j]); };
  int bad = 0;
  for (int i = 0; i < 3; i++) for (int j = 0; j < 3; j++) {
    if (!ge(i, j) && !ge(j, i)) { printf("memoize_hash=%d: (hash %zu, key %u) and (hash %zu, key %u) are incomparable\n", (int)MEMO, table_hash{}(k[i]), k[i], table_hash{}(k[j]), k[j]); bad = 1; }
    if ((ge(i, j) && ge(j, i)) != (k[i] == k[j])) { printf("memoize_hash=%d: >= both ways does not coincide with key equality for keys %u, %u\n", (int)MEMO, k[i], k[j]); bad = 1; }
    for (int l = 0; l < 3; l++) if (ge(i, j) && ge(j, l) && !ge(i, l)) { printf("memoize_hash=%d: not transitive on keys %u, %u, %u\n", (int)MEMO, k[i], k[j], k[l]); bad = 1; }
  }
  return bad;
}
int main(int argc, char** argv) {
  for (int i = 1; i < argc; ++i) {
    char* eq = strchr(argv[i], '='); if (!eq) continue; std::string k(argv[i], eq - argv[i]);
    size_t br = k.find('['); if (br != std::string::npos) { size_t e = k.find_first_not_of("0123456789", br + 1); k = k.substr(0, br + 1) + k.substr(br + 1, e - br - 1) + "]"; }
    if (isdigit(eq[1])) A[k] = strtoull(eq + 1, 0, 0);
  }
  unsigned k[3];
  for (int i = 0; i < 3; i++) { k[i] = A["in_ok[" + std::to_string(i) + "]"]; g_hash[k[i]] = A["in_oh[" + std::to_string(i) + "]"]; }
  int bad = run<false>(k) | run<true>(k);
  puts(bad ? "VIOLATION reproduced on the real class" : "property holds on this input");
  return bad;
}
