IMPL = 'xenium/impl/vyukov_hash_map.hpp'
HDR = 'xenium/vyukov_hash_map.hpp'
def runs():
    out = []
    for (eb, bk) in [(256, 64), (128, 40), (512, 48)]:
        for eic in (1, 3):
            tiers = ['quick', 'thorough'] if (eb, eic) in ((256, 3), (128, 1)) else ['thorough']
            out.append(dict(id='alloc_eb%d_bk%d_eic%d' % (eb, bk, eic), entry='h_alloc', cls='shape-complete', tiers=tiers,
                            defs={'XV_SZ_EB': eb, 'XV_SZ_BUCKET': bk, 'XV_EIC': eic}, unwindset=['vhm_allocate_block_real.1:%d' % (eic + 1)],
                            note='every bucket_count 2^0..2^31 and every 64-byte aligned base address (outer loop cut by an invariant: unbounded); shape: sizeof(extension_bucket)=%d, sizeof(bucket)=%d, '
                                 'extension_item_count=%d (inner loop unwound completely)' % (eb, bk, eic)))
    return out
UNIT = dict(
  title='vyukov_hash_map::allocate_block: size of the allocation, alignment of the extension pool, free lists (C10)',
  properties=['C10'],
  drops='templates; operator new(size, align, nothrow) is a model call that returns null or a fresh 64-byte aligned region of exactly `size` bytes (address symbolic); memset is a model call (zeroes the region: '
        'recorded as a flag that every later read of untouched memory relies on); placement-new of block is the identity; sizeof(block/bucket/extension_bucket) are shape constants (defs), because cbmc cannot '
        'decide division by a symbolic 64-bit value; the extension buckets are addressed through their computed byte address (bounds obligation against the allocated region), one ghost-tracked extension bucket '
        'for an arbitrary index, every other one arbitrary',
  assumptions=['sizeof(extension_bucket) a power of two (256 with 8-byte keys and values; 128, 512 as further shapes): with a size that is not a power of two cbmc did not decide the modulo arithmetic within 20 minutes (minisat2), such instantiations are not covered',
               'sizeof(block) = 64 (alignas(64) struct of three 32-bit fields, one pointer and the reclaimer header)'],
  consts=[dict(name='XV_RATIO', file=HDR, regex=r'static constexpr std::uint32_t bucket_to_extension_ratio = ([^;]+);')],
  sources=[
    dict(id='allocate_block', file=IMPL, sig=r'auto vyukov_hash_map<Key, Value, Policies...>::allocate_block\(std::uint32_t bucket_count\) -> block\*',
         c_sig='static block_t* vhm_allocate_block_real(struct vhm* self, uint32_t bucket_count)',
         pre_subst=[(r'::operator new\(size, cacheline_size, std::nothrow\)', 'XV_OPNEW(size, cacheline_size)', 'opnew'),
                    (r'std::memset\(([^;]*)\);', r'XV_MEMSET(\1);', 'memset'),
                    (r'new \(mem\) block;', 'XV_PLACE_BLOCK(mem);', 'placement_new'),
                    (r'sizeof\((block|bucket|extension_bucket)\)', r'XV_SIZEOF_\1', 'sizeof'),
                    (r'reinterpret_cast<std::size_t>\(b\)', 'XV_ADDR(b)', 'addr_of_block'),
                    (r'reinterpret_cast<extension_bucket\*>\(extension_bucket_addr\)', '(extension_bucket_addr)', 'eb_ptr'),
                    (r'b->extension_buckets\[(\w+)\]', r'XV_EB(b, \1)', 'eb_index')],
         subst=[(r'\bbucket_to_extension_ratio\b', 'XV_RATIO', 'ratio'), (r'\bextension_item_count\b', 'XV_EIC', 'eic')],
         types={'size_t': 'size_t'}, cut_loops={0: 'EBS'}, dflt='0',
         must_fire={'subst:opnew': 1, 'subst:memset': 1, 'subst:placement_new': 1, 'subst:sizeof': 7, 'subst:eb_index': 1, 'A_STORE': 2}),
  ],
  runs=runs(),
  obligations={
    'vhm.alloc.region': dict(deciding=True, text='every extension bucket the new block addresses lies completely inside the allocated region: the one spare extension bucket in the size pays for the alignment padding, for every bucket_count and base address; no 32/64-bit overflow in the size'),
    'vhm.alloc.aligned': dict(deciding=True, text='extension_buckets is the first multiple of sizeof(extension_bucket) at or behind the end of the bucket array (free_extension_item finds the owner of an item by dividing its address by that size)'),
    'vhm.alloc.header': dict(deciding=True, text='mask = bucket_count - 1, bucket_count and extension_bucket_count = bucket_count / bucket_to_extension_ratio as requested (the pool of a block of twice the size is not smaller); memory zeroed before anything is written (all bucket states unlocked/empty, all heads null, all extension locks free); null result exactly when the allocation failed'),
    'vhm.alloc.free_lists': dict(deciding=True, text='the free list of every extension bucket holds each of its extension_item_count items exactly once and ends with null'),
  },
  loop_obligation={'EBS': 'vhm.alloc.free_lists'},
  canaries=['alloc.null', 'alloc.padded', 'alloc.unpadded', 'alloc.tracked', 'alloc.no_ext'],
)
