/* unit vhm_alloc - vyukov_hash_map::allocate_block (C10). Contracts and harness only; the function body comes from lowered.h */
#include <stdint.h>
#include <stddef.h>
#include "xv.h"
int xv_threw; uint64_t xv_clock, xv_rmw_old; _Bool xv_cas_ok;
#define XV_SIZEOF_block ((size_t)64)
#define XV_SIZEOF_bucket ((size_t)XV_SZ_BUCKET)
#define XV_SIZEOF_extension_bucket ((size_t)XV_SZ_EB)
typedef struct extension_item { struct extension_item* next; } extension_item;
typedef struct { uint32_t lock; extension_item* head; extension_item items[XV_EIC]; } extension_bucket;
typedef struct { uint32_t mask, bucket_count, extension_bucket_count; size_t extension_buckets; /* byte address */ } block_t;
struct vhm { int dummy; };

/* the allocator model */
size_t g_base, g_size; _Bool g_alloc_fails, g_zeroed; unsigned g_allocs, g_writes_before_memset; size_t g_align;
block_t g_block;
static void* xv_opnew(size_t size, size_t align) {
  g_allocs++; g_size = size; g_align = align;
  if (g_alloc_fails) return 0;
  return &g_block;
}
#define XV_OPNEW(size, align) xv_opnew((size), (align))
#define cacheline_size ((size_t)64)
#define XV_MEMSET(mem, v, n) do { XV_OBL("vhm.alloc.header", (void*)(mem) == (void*)&g_block && (v) == 0 && (n) == g_size && !g_zeroed); g_zeroed = 1; \
   g_block.mask = 0; g_block.bucket_count = 0; g_block.extension_bucket_count = 0; g_block.extension_buckets = 0; \
   g_eb.lock = 0; g_eb.head = 0; for (int jj = 0; jj < XV_EIC; ++jj) g_eb.items[jj].next = 0; } while (0)   /* the tracked extension bucket lies in the region */
#define XV_PLACE_BLOCK(mem) ((block_t*)(mem))
#define XV_ADDR(b) (g_base)
/* extension buckets by index: byte address = b->extension_buckets + i * sizeof(extension_bucket); one tracked index */
uint32_t g_i; extension_bucket g_eb, g_eb_scratch;
static extension_bucket* xv_eb(block_t* b, uint32_t i) {
  size_t a = b->extension_buckets + (size_t)i * XV_SIZEOF_extension_bucket;
  XV_OBL("vhm.alloc.region", g_zeroed && a >= g_base + XV_SIZEOF_block + XV_SIZEOF_bucket * b->bucket_count && a + XV_SIZEOF_extension_bucket <= g_base + g_size && a + XV_SIZEOF_extension_bucket > a);
  XV_OBL("vhm.alloc.aligned", a % XV_SIZEOF_extension_bucket == 0);
  if (i == g_i) return &g_eb;
  for (int j = 0; j < XV_EIC; ++j) g_eb_scratch.items[j].next = (extension_item*)nondet_uptr();
  g_eb_scratch.head = (extension_item*)nondet_uptr();
  return &g_eb_scratch;
}
#define XV_EB(b, i) (*xv_eb((b), (i)))

/* the free list of the tracked extension bucket: items XV_EIC-1, ..., 0, null */
static _Bool list_ok(void) {
  extension_item* p = g_eb.head;
  for (int j = XV_EIC - 1; j >= 0; --j) { if (p != &g_eb.items[j]) return 0; p = p->next; }
  return p == 0;
}
#define XV_INV_EBS (i <= extension_bucket_count && b == &g_block && g_zeroed && g_block.extension_buckets == extension_bucket_addr && g_block.bucket_count == bucket_count && g_size == size \
                    && (g_i < i ? list_ok() : (g_eb.lock == 0)))
#define XV_HAVOC_EBS i = nondet_u32(); g_eb.head = (extension_item*)nondet_uptr(); for (int jj = 0; jj < XV_EIC; ++jj) g_eb.items[jj].next = (extension_item*)nondet_uptr(); \
                    g_eb_scratch.head = (extension_item*)nondet_uptr() /* bucket, head, j, bucket_p: locals of the loop body, declared and initialised inside it */
#include "lowered.h"

void h_alloc(void) {
  struct vhm m; m.dummy = nondet_int();
  unsigned c = nondet_uint(); XV_ASSUME(c <= 31); uint32_t n = (uint32_t)1 << c;     /* callers pass next_power_of_two(initial_capacity) or twice the current bucket_count */
  g_base = nondet_size(); XV_ASSUME(g_base % 64 == 0 && g_base != 0 && g_base < ((size_t)1 << 47));   /* canonical user-space address, aligned as requested */
  g_alloc_fails = nondet_bool(); g_zeroed = 0; g_allocs = 0; g_size = nondet_size(); g_i = nondet_u32();
  g_eb.lock = nondet_u32(); g_eb.head = (extension_item*)nondet_uptr(); for (int j = 0; j < XV_EIC; ++j) g_eb.items[j].next = (extension_item*)nondet_uptr();
  g_block.mask = nondet_u32(); g_block.bucket_count = nondet_u32(); g_block.extension_bucket_count = nondet_u32(); g_block.extension_buckets = nondet_size();
  /* memset zeroes the tracked extension bucket as well */
  block_t* r = vhm_allocate_block_real(&m, n);
  XV_OBL("vhm.alloc.header", g_allocs == 1 && g_align == 64 && !xv_threw);
  if (g_alloc_fails) { XV_OBL("vhm.alloc.header", r == 0); XV_CANARY("alloc.null"); return; }
  XV_OBL("vhm.alloc.header", r == &g_block && g_zeroed);
  XV_OBL("vhm.alloc.header", r->mask == n - 1 && r->bucket_count == n && r->extension_bucket_count == n / XV_RATIO);
  size_t end_of_buckets = g_base + XV_SIZEOF_block + XV_SIZEOF_bucket * n;
  XV_OBL("vhm.alloc.aligned", r->extension_buckets >= end_of_buckets && r->extension_buckets - end_of_buckets < XV_SIZEOF_extension_bucket && r->extension_buckets % XV_SIZEOF_extension_bucket == 0);
  /* the whole pool, padding included, fits: last byte of the last extension bucket */
  XV_OBL("vhm.alloc.region", r->extension_buckets + XV_SIZEOF_extension_bucket * (size_t)r->extension_bucket_count <= g_base + g_size);
  XV_OBL("vhm.alloc.region", g_size >= XV_SIZEOF_block + XV_SIZEOF_bucket * n && g_size < ((size_t)1 << 45));
  if (g_i < r->extension_bucket_count) { XV_OBL("vhm.alloc.free_lists", list_ok() && g_eb.lock == 0); XV_CANARY("alloc.tracked"); }
  if (r->extension_bucket_count == 0) XV_CANARY("alloc.no_ext");
  if (r->extension_buckets != end_of_buckets) XV_CANARY("alloc.padded"); else XV_CANARY("alloc.unpadded");
}
