#include <xenium/left_right.hpp>
#include <xenium/seqlock.hpp>
#include <string>
#include <vector>
struct Big { long a, b, c; };
void f(xenium::left_right<std::vector<int>>& lr, xenium::seqlock<Big>& sl) {
  lr.update([](std::vector<int>& v) { v.push_back(1); });
  (void)lr.read([](const std::vector<int>& v) { return v.size(); });
  sl.store(Big{1, 2, 3}); (void)sl.load(); sl.update([](Big& b) { b.a++; });
}
