#include <xenium/vyukov_hash_map.hpp>
#include <xenium/reclamation/generic_epoch_based.hpp>
#include <string>
using R = xenium::policy::reclaimer<xenium::reclamation::epoch_based<>>;
using M1 = xenium::vyukov_hash_map<std::string, std::string, R>;
using M2 = xenium::vyukov_hash_map<int, int, R>;
using M3 = xenium::vyukov_hash_map<std::string, int, R>;
template <class MM, class K, class V> void use(MM& m, K k, V v) {
  m.emplace(k, v); m.get_or_emplace(k, v); m.get_or_emplace_lazy(k, [&] { return v; });
  typename MM::accessor acc; m.try_get_value(k, acc); m.extract(k, acc); m.erase(k);
  auto it = m.find(k); if (it != m.end()) { ++it; } m.erase(it);
  for (auto i = m.begin(); i != m.end(); ++i) { (void)*i; }
}
void f(M1& a, M2& b, M3& c) { use(a, std::string("k"), std::string("v")); use(b, 1, 2); use(c, std::string("k"), 3); }
