#include <xenium/michael_scott_queue.hpp>
#include <xenium/ramalhete_queue.hpp>
#include <xenium/nikolaev_queue.hpp>
#include <xenium/nikolaev_bounded_queue.hpp>
#include <xenium/vyukov_bounded_queue.hpp>
#include <xenium/kirsch_kfifo_queue.hpp>
#include <xenium/kirsch_bounded_kfifo_queue.hpp>
#include <xenium/chase_work_stealing_deque.hpp>
#include <xenium/reclamation/generic_epoch_based.hpp>
#include <memory>
#include <string>
using R = xenium::policy::reclaimer<xenium::reclamation::epoch_based<>>;
void f() {
  xenium::michael_scott_queue<std::string, R> ms; ms.push("a"); std::string s; ms.try_pop(s); (void)ms.pop();
  xenium::ramalhete_queue<std::unique_ptr<int>, R> rq; rq.push(std::make_unique<int>(1)); std::unique_ptr<int> u; rq.try_pop(u);
  xenium::nikolaev_queue<std::string, R> nq; nq.push("a"); nq.try_pop(s); (void)nq.pop();
  xenium::nikolaev_bounded_queue<std::string> nb(4); nb.try_push("a"); nb.try_pop(s); (void)nb.pop();
  xenium::vyukov_bounded_queue<std::string> vb(4); vb.try_push("a"); vb.try_push_weak("a"); vb.try_push_strong("a"); vb.try_pop(s); vb.try_pop_weak(s); vb.try_pop_strong(s);
  (void)vb.pop(); (void)vb.pop_weak(); (void)vb.pop_strong();
  xenium::kirsch_kfifo_queue<std::unique_ptr<int>, R> kq(2); kq.push(std::make_unique<int>(1)); kq.try_pop(u); (void)kq.pop();
  xenium::kirsch_bounded_kfifo_queue<std::unique_ptr<int>> kb(2, 2); kb.try_push(std::make_unique<int>(1)); kb.try_pop(u); (void)kb.pop();
  xenium::chase_work_stealing_deque<int> d; int x = 0; int* p = &x; d.try_push(p); d.try_pop(p); d.try_steal(p);
}
