// instantiates the public API of harris_michael_hash_map with a non-trivially movable key, so that clang-tidy sees the template bodies
#include <xenium/harris_michael_hash_map.hpp>
#include <xenium/reclamation/generic_epoch_based.hpp>
#include <string>
using M = xenium::harris_michael_hash_map<std::string, std::string, xenium::policy::reclaimer<xenium::reclamation::epoch_based<>>, xenium::policy::buckets<4>>;
using M2 = xenium::harris_michael_hash_map<std::string, int, xenium::policy::reclaimer<xenium::reclamation::epoch_based<>>, xenium::policy::buckets<4>, xenium::policy::memoize_hash<true>>;
template <class MM, class V> void use(MM& m, V v) {
  std::string k = "a";
  m.emplace(k, v); m.emplace_or_get(k, v); m.get_or_emplace(k, v); m.get_or_emplace_lazy(k, [&] { return v; });
  auto it = m.find(k); ++it; m.erase(k); m.erase(it); m.contains(k); m[k];
  for (auto i = m.begin(); i != m.end(); ++i) { (void)*i; }
}
void f(M& a, M2& b) { use(a, std::string("x")); use(b, 1); }
