# Supporting static facts (clang-tidy, NOT cbmc): the C lowering turns std::move/std::forward into the identity, so "a moved-from
# object is used as if it still held its value" is invisible to the cbmc units.  clang-tidy's bugprone-use-after-move on translation
# units that instantiate the real templates closes that gap for the functions the units cover.
def R(i, tu, obl): return dict(id=i, kind='clang-tidy', tu=tu, obligation=obl, cls='static', mode='STATIC', tiers=['quick', 'thorough'], timeout=600)
UNIT = dict(
  title='value-category facts dropped by the lowering (clang-tidy bugprone-use-after-move on instantiations of the real templates)',
  properties=['C04', 'C07', 'C08', 'C10', 'C13'],
  drops='nothing is lowered: clang-tidy analyses the real headers through small translation units (tu_*.cpp) that instantiate the public API with non-trivially movable types',
  assumptions=['clang-tidy 14 bugprone-use-after-move is a heuristic data-flow check (no proof); explicit destructor calls on moved-from objects are filtered as legitimate'],
  sources=[],
  runs=[R('hmm', 'tu_hmm.cpp', 'static.hmm.no_use_after_move'), R('hms', 'tu_hms.cpp', 'static.hms.no_use_after_move'),
        R('vhm', 'tu_vhm.cpp', 'static.vhm.no_use_after_move'), R('queues', 'tu_queues.cpp', 'static.queues.no_use_after_move'),
        R('lr', 'tu_lr.cpp', 'static.lr.no_use_after_move')],
  obligations={n: dict(deciding=True, text='no object is used after it was moved from (other than being destroyed) in the instantiated functions of this header')
               for n in ['static.hmm.no_use_after_move', 'static.hms.no_use_after_move', 'static.vhm.no_use_after_move', 'static.queues.no_use_after_move', 'static.lr.no_use_after_move']},
  canaries=[],
)
