#include <xenium/harris_michael_list_based_set.hpp>
#include <xenium/reclamation/generic_epoch_based.hpp>
#include <string>
using S = xenium::harris_michael_list_based_set<std::string, xenium::policy::reclaimer<xenium::reclamation::epoch_based<>>>;
void f(S& s) {
  std::string k = "a";
  s.emplace(k); s.emplace_or_get(k); auto it = s.find(k); ++it; s.erase(k); s.erase(it); s.contains(k);
  for (auto i = s.begin(); i != s.end(); ++i) { (void)*i; }
}
