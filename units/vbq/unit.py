F = 'xenium/vyukov_bounded_queue.hpp'
MEM = ['cells', 'index_mask', 'enqueue_pos', 'dequeue_pos']

def push_src(sid, weak, cut):
    name = 'vbq_do_try_push_%s%s' % ('w' if weak else 's', '_cut' if cut else '')
    d = dict(id=sid, file=F, sig=r'template <bool Weak, class\.\.\. Args>\s*bool do_try_push\(Args&&\.\.\. args\)',
             c_sig='static _Bool %s(struct vbq* self, value* args)' % name,
             members=MEM,
             # template parameter Weak -> the instantiation's constant; the forwarded parameter pack is one T&& (pointer to the caller's object)
             pre_subst=[(r'\bWeak\b', '1' if weak else '0', 'Weak'),
                        (r'assign_value\(c->data, std::forward<Args>\(args\)\.\.\.\);', r'vbq_assign_value(self, &(c->data), args);', 'assign_value')],
             must_fire={'subst:Weak': 1, 'subst:assign_value': 1, 'A_LOAD': 5, 'A_CASW': 1, 'A_STORE': 1,
                        'member:cells': 1, 'member:index_mask': 2, 'member:enqueue_pos': 4, 'member:dequeue_pos': 1})
    if cut: d['cut_loops'] = {0: 'PUSH'}; d['must_fire']['cut_loop'] = 1
    return d

def pop_src(sid, weak, cut):
    tag = 'w' if weak else 's'
    name = 'vbq_do_try_pop_%s%s' % (tag, '_cut' if cut else '')
    d = dict(id=sid, file=F, sig=r'template <bool Weak, class SuccessFunc, class EmptyFunc>\s*auto do_try_pop\(SuccessFunc successFunc, EmptyFunc emptyFunc\)',
             # one instantiation per call site (each lambda is its own type): the two lambdas of try_pop_<tag> are lowered as
             # separate functions; the capture [&result] becomes the parameter cap_result
             c_sig='static _Bool %s(struct vbq* self, value* cap_result)' % name,
             members=MEM,
             pre_subst=[(r'\bWeak\b', '1' if weak else '0', 'Weak'),
                        (r'reinterpret_cast<T&>\(c->data\)', 'XV_DATA_AS_T(c)', 'as_T')],
             subst=[(r'\bsuccessFunc\(v\)', 'vbq_tp%s_success(cap_result, &(v))' % tag, 'successFunc'),
                    (r'\bemptyFunc\(\)', 'vbq_tp%s_empty()' % tag, 'emptyFunc'),
                    (r'\bv\.~T\(\)', 'XV_DESTROY_T(&(v))', 'dtor_T')],
             must_fire={'subst:Weak': 1, 'subst:as_T': 1, 'subst:successFunc': 1, 'subst:emptyFunc': 2, 'subst:dtor_T': 1,
                        'A_LOAD': 5, 'A_CASW': 1, 'A_STORE': 1, 'reference': 1,
                        'member:cells': 1, 'member:index_mask': 2, 'member:enqueue_pos': 1, 'member:dequeue_pos': 4})
    if cut: d['cut_loops'] = {0: 'POP'}; d['must_fire']['cut_loop'] = 1
    return d

LAMBDA = r'\[&result\]\(T& v\)\s*\{[^{}]*\},\s*\[\]\(\)\s*\{[^{}]*\}'
def pop_wrapper(sid, fn, tmpl, callee):
    return dict(id=sid, file=F, sig=r'bool %s\(T& result\)' % fn,
                c_sig='static _Bool vbq_%s(struct vbq* self, value* result_p)' % fn,
                pre_subst=[(r'do_try_pop<%s>\(\s*' % tmpl + LAMBDA + r'\)', callee + '(self, result_p)', 'closure')],
                must_fire={'subst:closure': 1})
def lambda_success(sid, fn, name):
    return dict(id=sid, file=F, sig=r'bool %s\(T& result\) \{\s*return do_try_pop<\w+>\(\s*\[&result\]\(T& v\)' % fn,
                c_sig='static _Bool %s(value* result_p, value* v_p)' % name,
                subst=[(r'\bresult\b', '(*result_p)', 'result_ref'), (r'\bv\b', '(*v_p)', 'v_ref')],
                must_fire={'subst:result_ref': 1, 'subst:v_ref': 1})
def lambda_empty(sid, fn, name):
    return dict(id=sid, file=F, sig=r'bool %s\(T& result\) \{\s*return do_try_pop<\w+>\(\s*\[&result\]\(T& v\)\s*\{[^{}]*\},\s*\[\]\(\)' % fn,
                c_sig='static _Bool %s(void)' % name, must_fire={})
def push_wrapper(sid, fn, tmpl, callee):
    return dict(id=sid, file=F, sig=r'template <class\.\.\. Args>\s*bool %s\(Args&&\.\.\. args\)' % fn,
                c_sig='static _Bool vbq_%s(struct vbq* self, value* args)' % fn,
                pre_subst=[(r'do_try_push<%s>\(std::forward<Args>\(args\)\.\.\.\)' % tmpl, callee + '(self, args)', 'forward')],
                must_fire={'subst:forward': 1})

UNIT = dict(
  title='vyukov_bounded_queue: ring of N cells with per-cell sequence numbers (C05 vyukov half, C07 ownership)',
  properties=['C05', 'C07'],
  drops='templates: T is an opaque 64-bit word, storage_t carries the ghost alive flag; Weak is substituted per instantiation (0/1); '
        'the forwarded parameter pack is one T&& (pointer to the caller\'s object); the two lambdas of try_pop_strong/try_pop_weak are '
        'extracted as separate functions (closure conversion: [&result] -> parameter) and do_try_pop is lowered once per call site; '
        'placement new / ~T are the primitives XV_PLACEMENT_NEW_MOVE / XV_DESTROY_T (ghost lifetime checks); unique_ptr<cell[]> is an array of N cells; '
        'std::atomic is the sequentially consistent cell model of xv.h; pop()/pop_strong()/pop_weak() (std::optional flavour of the same template) are not lowered',
  assumptions=['INT rely (full/empty instant): other threads only advance enqueue_pos/dequeue_pos, by less than 2^63 in total during one call, and keep 0 <= enq-deq <= N (their guarantee is vbq.inv.preserved in SEQ); cell sequences are arbitrary',
               'the lifetime/ownership obligations are sequential (SEQ); under interference they rest on the commit obligations plus the composition lemma of DESIGN.md'],
  sources=[
    push_src('do_try_push_s', 0, 0), push_src('do_try_push_s_cut', 0, 1),
    push_src('do_try_push_w', 1, 0), push_src('do_try_push_w_cut', 1, 1),
    pop_src('do_try_pop_s', 0, 0), pop_src('do_try_pop_s_cut', 0, 1),
    pop_src('do_try_pop_w', 1, 0), pop_src('do_try_pop_w_cut', 1, 1),
  ],
  runs=[], obligations={}, canaries=[],
)
