F = 'xenium/vyukov_bounded_queue.hpp'
MEM = ['cells', 'index_mask', 'enqueue_pos', 'dequeue_pos']

# original (uncut) retry loop: a ghost iteration counter at the head of the body turns 'returns within one iteration' into a named, traceable obligation
TICK = [(r'for \(;;\) \{', 'for (;;) { XV_LOOP_TICK();', 'tick')]

def push_src(sid, weak, cut):
    name = 'vbq_do_try_push_%s%s' % ('w' if weak else 's', '_cut' if cut else '')
    d = dict(id=sid, file=F, sig=r'template <bool Weak, class\.\.\. Args>\s*bool do_try_push\(Args&&\.\.\. args\)',
             c_sig='static _Bool %s(struct vbq* self, value* args)' % name,
             members=MEM,
             # template parameter Weak -> the instantiation's constant; the forwarded parameter pack is one T&& (pointer to the caller's object)
             pre_subst=[(r'\bWeak\b', '1' if weak else '0', 'Weak'),
                        (r'assign_value\(c->data, std::forward<Args>\(args\)\.\.\.\);', r'vbq_assign_value(self, &(c->data), args);', 'assign_value')],
             must_fire={'subst:Weak': 1, 'subst:assign_value': 1, 'A_LOAD': 5, 'A_CASW': 1, 'A_STORE': 1,
                        'member:cells': 1, 'member:index_mask': 2, 'member:enqueue_pos': 4, 'member:dequeue_pos': 1})
    if cut: d['cut_loops'] = {0: 'PUSH'}; d['must_fire']['cut_loop'] = 1
    else: d['post_subst'] = TICK; d['must_fire']['subst:tick'] = 1
    return d

def pop_src(sid, weak, cut):
    tag = 'w' if weak else 's'
    name = 'vbq_do_try_pop_%s%s' % (tag, '_cut' if cut else '')
    d = dict(id=sid, file=F, sig=r'template <bool Weak, class SuccessFunc, class EmptyFunc>\s*auto do_try_pop\(SuccessFunc successFunc, EmptyFunc emptyFunc\)',
             # one instantiation per call site (each lambda is its own type): the two lambdas of try_pop_<tag> are lowered as
             # separate functions; the capture [&result] becomes the parameter cap_result
             c_sig='static _Bool %s(struct vbq* self, value* cap_result)' % name,
             members=MEM,
             pre_subst=[(r'\bWeak\b', '1' if weak else '0', 'Weak'),
                        (r'reinterpret_cast<T&>\(c->data\)', 'XV_DATA_AS_T(c)', 'as_T')],
             subst=[(r'\bsuccessFunc\(v\)', 'vbq_tp%s_success(cap_result, &(v))' % tag, 'successFunc'),
                    (r'\bemptyFunc\(\)', 'vbq_tp%s_empty()' % tag, 'emptyFunc'),
                    (r'\bv\.~T\(\)', 'XV_DESTROY_T(&(v))', 'dtor_T')],
             must_fire={'subst:Weak': 1, 'subst:as_T': 1, 'subst:successFunc': 1, 'subst:emptyFunc': 2, 'subst:dtor_T': 1,
                        'A_LOAD': 5, 'A_CASW': 1, 'A_STORE': 1, 'reference': 1,
                        'member:cells': 1, 'member:index_mask': 2, 'member:enqueue_pos': 1, 'member:dequeue_pos': 4})
    if cut: d['cut_loops'] = {0: 'POP'}; d['must_fire']['cut_loop'] = 1
    else: d['post_subst'] = TICK; d['must_fire']['subst:tick'] = 1
    return d

LAMBDA = r'\[&result\]\(T& v\)\s*\{[^{}]*\},\s*\[\]\(\)\s*\{[^{}]*\}'
def pop_wrapper(sid, fn, tmpl, callee):
    return dict(id=sid, file=F, sig=r'bool %s\(T& result\)' % fn,
                c_sig='static _Bool vbq_%s(struct vbq* self, value* result_p)' % fn,
                pre_subst=[(r'do_try_pop<%s>\(\s*' % tmpl + LAMBDA + r'\)', callee + '(self, result_p)', 'closure')],
                must_fire={'subst:closure': 1})
def lambda_success(sid, fn, name):
    return dict(id=sid, file=F, sig=r'bool %s\(T& result\) \{\s*return do_try_pop<\w+>\(\s*\[&result\]\(T& v\)' % fn,
                c_sig='static _Bool %s(value* result_p, value* v_p)' % name,
                subst=[(r'\bresult\b', '(*result_p)', 'result_ref'), (r'\bv\b', '(*v_p)', 'v_ref')],
                must_fire={'subst:result_ref': 1, 'subst:v_ref': 1})
def lambda_empty(sid, fn, name):
    return dict(id=sid, file=F, sig=r'bool %s\(T& result\) \{\s*return do_try_pop<\w+>\(\s*\[&result\]\(T& v\)\s*\{[^{}]*\},\s*\[\]\(\)' % fn,
                c_sig='static _Bool %s(void)' % name, must_fire={})
def push_wrapper(sid, fn, tmpl, callee):
    return dict(id=sid, file=F, sig=r'template <class\.\.\. Args>\s*bool %s\(Args&&\.\.\. args\)' % fn,
                c_sig='static _Bool vbq_%s(struct vbq* self, value* args)' % fn,
                pre_subst=[(r'do_try_push<%s>\(std::forward<Args>\(args\)\.\.\.\)' % tmpl, callee + '(self, args)', 'forward')],
                must_fire={'subst:forward': 1})


QUICK = [2, 4, 8]; THOROUGH = [16, 32]
RUNS = []
def add(rid, entry, n, tier, **kw):
    d = dict(id='%s_n%d' % (rid, n), entry=entry, tiers=[tier] if tier == 'thorough' else ['quick', 'thorough'], cls='shape-complete')
    d.update(kw); defs = dict(kw.get('defs', {})); defs['N'] = n; d['defs'] = defs
    d.setdefault('unwind', n + 1)      # harness loops over the N cells; the retry loops are cut or have their own unwindset entry
    RUNS.append(d)
for n, tier in [(x, 'quick') for x in QUICK] + [(x, 'thorough') for x in THOROUGH]:
    # SEQ: any Inv_V state (deq: any 64-bit value, count 0..N, values arbitrary); strong ops: original loop, 2 iterations + unwinding assertion
    add('push_s', 'h_push_strong', n, tier, unwindset=['vbq_do_try_push_s.0:2'], note='original retry loop, complete at 1 iteration (unwinding assertion)')
    add('pop_s', 'h_pop_strong', n, tier, unwindset=['vbq_do_try_pop_s.0:2'], note='original retry loop, complete at 1 iteration (unwinding assertion)')
    add('push_w', 'h_push_weak', n, tier, note='retry loop cut by invariant PUSH (partial correctness); termination is the SOLO run')
    add('pop_w', 'h_pop_weak', n, tier, note='retry loop cut by invariant POP')
    if n <= 16: add('dtor', 'h_dtor', n, tier, unwind=n + 1, note='destructor loop runs count <= N times, complete at N+1 (N = 32 left out: > 5 min)')
    add('ctor', 'h_ctor', n, tier, unwind=n + 1)
    add('solo_push_w', 'h_solo_push_weak', n, tier, mode='SOLO', defs={'XV_SOLO': 1}, unwindset=['vbq_do_try_push_w.0:2'], unwind_obligation='vbq.weak.terminates')
    add('solo_pop_w', 'h_solo_pop_weak', n, tier, mode='SOLO', defs={'XV_SOLO': 1}, unwindset=['vbq_do_try_pop_w.0:2'], unwind_obligation='vbq.weak.terminates')
RUNS.append(dict(id='dispatch', entry='h_dispatch', defs={'N': 2}, cls='unbounded', tiers=['quick', 'thorough'], note='static dispatch facts extracted from the header'))
for n in QUICK:
    if n == 8: continue
    for m in (0, 1):
        for op in ('push_strong', 'push_weak', 'pop_strong', 'pop_weak'):
            if m == 1 and 'weak' in op: continue
            add('%s_int%d' % (op.replace('_strong', '_s').replace('_weak', '_w'), m), 'h_%s_int' % op, n, 'quick', mode='INT', defs={'ENV_MODE': m},
                note='retry loop cut; environment: ' + ('positions only advance, occupancy stays within 0..N, sequences arbitrary' if m else 'anything'))
RUNS.append(dict(id='lambdas', entry='h_lambdas', cls='unbounded', defs={'N': 2}))
add('push_d', 'h_push_default', 2, 'quick', unwindset=['vbq_do_try_push_s.0:2'], note='try_push with the default policy')
add('pop_d', 'h_pop_default', 2, 'quick', unwindset=['vbq_do_try_pop_s.0:2'], note='try_pop with the default policy')

OBLS = {
  'vbq.push_strong.full_iff': dict(deciding=True, text='[SEQ] try_push_strong fails iff enq-deq == N, and then positions and every cell are unchanged'),
  'vbq.pop_strong.empty_iff': dict(deciding=True, text='[SEQ] try_pop_strong fails iff enq == deq, and then positions, every cell and the result variable are unchanged'),
  'vbq.fifo': dict(deciding=True, text='[SEQ] a successful push stores its value at position enq (cell enq&mask, sequence enq+1) and advances enq by one; a successful pop returns the value stored at position deq, advances deq by one and frees the cell for position deq+N; no other cell changes'),
  'vbq.inv.preserved': dict(deciding=True, text='[SEQ] Inv_V (0 <= enq-deq <= N mod 2^64; cell of p has seq p+1 and a live T for p in [deq,enq), seq p and no T for p in [enq,deq+N)) holds after every operation, for all 64-bit positions'),
  'vbq.weak.no_wrong_success': dict(deciding=True, text='[SEQ+INT, spurious CAS failure allowed] a weak operation that fails has changed nothing (no CAS succeeded, no store, no construction/destruction, argument/result untouched); one that succeeds has the effect of the strong operation; it never succeeds on a full (push) / empty (pop) queue'),
  'vbq.weak.seq_no_spurious': dict(deciding=False, text='[SEQ] without pending operations the weak variants fail only when full / empty (documentation of try_push_weak / try_pop_weak)'),
  'vbq.weak.terminates': dict(deciding=True, text='[SOLO] try_push_weak / try_pop_weak (documented lock-free) return after at most one loop iteration from every mid-operation state when running alone, for all 64-bit positions'),
  'vbq.strong.seq_terminates': dict(deciding=True, text='[SEQ] without interference the strong operations return within one loop iteration from every Inv_V state'),
  'vbq.dtor.owns': dict(deciding=True, text='[SEQ] the destructor destroys exactly the objects of positions [deq,enq), each once, and nothing else'),
  'vbq.ctor.establishes': dict(deciding=True, text='the constructor allocates size cells and establishes Inv_V with deq = enq = 0 without constructing any T'),
  'vbq.cell.lifetime': dict(deciding=True, text='[SEQ] placement new only into storage holding no T, reinterpret_cast<T&> / ~T only on storage holding a live T (no double construction, no double destruction, no read of dead storage)'),
  'vbq.push.accepted_owned': dict(deciding=True, text='[SEQ] a successful push move-constructs exactly one T, from the caller\'s argument, into the cell of position enq'),
  'vbq.push.rejected_stays_with_caller': dict(deciding=True, text='[SEQ] a failed push does not touch the caller\'s argument and constructs nothing'),
  'vbq.pop.destroys_once': dict(deciding=True, text='[SEQ] a successful pop reads the cell of position deq once, destroys its T exactly once, before releasing the cell'),
  'vbq.pop.lambda_contract': dict(deciding=True, text='the success lambda of try_pop* moves the cell value into the caller\'s result and returns true; the empty lambda returns false'),
  'vbq.push.commit': dict(deciding=True, text='[INT, arbitrary environment] push returns true only after exactly one successful CAS of enqueue_pos from p to p+1 where p is the value the immediately preceding acquire-load of cell p&mask\'s sequence returned; then it constructs in that cell and release-stores p+1 to its sequence, in this order; returns false only without any write'),
  'vbq.pop.commit': dict(deciding=True, text='[INT, arbitrary environment] pop returns true only after exactly one successful CAS of dequeue_pos from p to p+1 where the immediately preceding load of cell p&mask\'s sequence returned p+1; the result is read from that cell, its T destroyed once, then p+N is release-stored to its sequence; returns false only without any write'),
  'vbq.push_strong.full_instant': dict(deciding=True, text='[INT, monotone rely] when try_push_strong returns false, enq-deq == N held at the instant of its last dequeue_pos load'),
  'vbq.pop_strong.empty_instant': dict(deciding=True, text='[INT, monotone rely] when try_pop_strong returns false, enq == deq held at the instant of its last enqueue_pos load'),
  'vbq.sync.cell_sequence': dict(deciding=True, text='sync precondition: every load of a cell sequence in push/pop is acquire-or-stronger, the publishing store is release-or-stronger and comes after the construction / destruction of the value'),
}
LOOP_OBL = {'PUSH': 'vbq.push.commit', 'POP': 'vbq.pop.commit'}
REPLAYS = {k: dict(src='replay_vbq.cpp') for k in ['vbq.push_strong.full_iff', 'vbq.pop_strong.empty_iff', 'vbq.fifo', 'vbq.inv.preserved', 'vbq.weak.no_wrong_success',
           'vbq.weak.seq_no_spurious', 'vbq.weak.terminates', 'vbq.strong.seq_terminates', 'vbq.dtor.owns', 'vbq.cell.lifetime', 'vbq.push.accepted_owned', 'vbq.push.rejected_stays_with_caller', 'vbq.pop.destroys_once']}
CANARIES = []
for t in ('push_s', 'push_w', 'push_d'): CANARIES += [t + x for x in ('.full', '.ok', '.ok_wrap', '.ok_becomes_full')]
for t in ('pop_s', 'pop_w', 'pop_d'): CANARIES += [t + x for x in ('.empty', '.ok', '.ok_wrap', '.ok_from_full')]
CANARIES += ['push_s.full_wrapped', 'push_d.full_wrapped', 'pop_s.empty_at_max', 'pop_d.empty_at_max']
for t in ('push_s', 'push_w', 'pop_s', 'pop_w'): CANARIES += [t + '.int_ok', t + '.int_fail']
CANARIES += ['dispatch.reached', 'lambdas.default', 'ctor.done', 'dtor.destroyed', 'dtor.skipped', 'dtor.full', 'dtor.empty', 'dtor.wrapped', 'solo_push_w.ok', 'solo_push_w.fail', 'solo_pop_w.ok', 'solo_pop_w.fail']
UNIT = dict(
  title='vyukov_bounded_queue: ring of N cells with per-cell sequence numbers (C05 vyukov half, C07 ownership)',
  properties=['C05', 'C07'],
  drops='templates: T is an opaque 64-bit word, storage_t carries the ghost alive flag; Weak is substituted per instantiation (0/1); '
        'the forwarded parameter pack is one T&& (pointer to the caller\'s object); the two lambdas of try_pop/try_pop_strong/try_pop_weak are '
        'extracted as separate functions (closure conversion: [&result] -> parameter) and do_try_pop is lowered once per Weak value; '
        'placement new / reinterpret_cast<T&> / ~T are the primitives XV_PLACEMENT_NEW_MOVE / XV_DATA_AS_T / XV_DESTROY_T (ghost lifetime checks); '
        'unique_ptr<cell[]> is an array of N cells; std::atomic is the sequentially consistent cell model of xv.h; '
        'pop()/pop_strong()/pop_weak() (std::optional flavour of the same template) and the const T& / emplace overloads of assign_value are not lowered',
  assumptions=['SOLO (termination) start states: positions below 2^62 and pending pops only of positions that exist; beyond a 2^64 counter wrap the weak operations would spin (unsigned `seq < pos`), recorded as a remark with units/vbq/native_weak_wrap.cpp and fix_weak_wrap.diff, not reachable in practice', 'INT rely for vbq.*_strong.*_instant: other threads only advance enqueue_pos/dequeue_pos, by less than 2^63 in total during one call, and keep 0 <= enq-deq <= N '
               '(their guarantee is vbq.inv.preserved + vbq.fifo in SEQ); cell sequences are arbitrary',
               'the lifetime/ownership obligations are sequential (SEQ); under interference they rest on the commit obligations plus the composition lemma of DESIGN.md',
               'SOLO: the mid-operation states are Inv_V with any subset of claimed-but-unpublished pushes (seq = p) and claimed-but-unreleased pops (seq = p-N+1)'],
  consts=[
          # dispatch of the std::optional overloads (their lambdas are not lowered): which instantiation of do_try_pop they forward to.
          # 2 = default_to_weak, 1 = do_try_pop<true> (weak, lock-free), 0 = do_try_pop<false> (strong)
          dict(name='XV_DISPATCH_POP', file=F, regex=r'std::optional<T> pop\(\)\s*\{\s*return \w+<(\w+)>', subst=[('^default_to_weak$', '2'), ('^true$', '1'), ('^false$', '0')]),
          dict(name='XV_DISPATCH_POP_STRONG', file=F, regex=r'std::optional<T> pop_strong\(\)\s*\{\s*return \w+<(\w+)>', subst=[('^default_to_weak$', '2'), ('^true$', '1'), ('^false$', '0')]),
          dict(name='XV_DISPATCH_POP_WEAK', file=F, regex=r'std::optional<T> pop_weak\(\)\s*\{\s*return \w+<(\w+)>', subst=[('^default_to_weak$', '2'), ('^true$', '1'), ('^false$', '0')]),
          dict(name='XV_DEFAULT_TO_WEAK', file=F, regex=r'parameter::value_param_t<bool, policy::default_to_weak, (\w+), Policies\.\.\.>::value', subst=[('false', '0'), ('true', '1')])],
  sources=[
    dict(id='assign_value', file=F, sig=r'void assign_value\(storage_t& v, T&& source\)',
         c_sig='static void vbq_assign_value(struct vbq* self, storage_t* v_p, value* source_p)',
         pre_subst=[(r'new \(&v\) T\(std::move\(source\)\);', 'XV_PLACEMENT_NEW_MOVE(&(v), &(source));', 'placement_new')],
         subst=[(r'\bv\b', '(*v_p)', 'v_ref'), (r'\bsource\b', '(*source_p)', 'source_ref')],
         must_fire={'subst:placement_new': 1, 'subst:v_ref': 1, 'subst:source_ref': 1}),
    push_src('do_try_push_s', 0, 0), push_src('do_try_push_s_cut', 0, 1),
    push_src('do_try_push_w', 1, 0), push_src('do_try_push_w_cut', 1, 1),
    lambda_success('tps_success', 'try_pop_strong', 'vbq_tps_success'), lambda_empty('tps_empty', 'try_pop_strong', 'vbq_tps_empty'),
    lambda_success('tpw_success', 'try_pop_weak', 'vbq_tpw_success'), lambda_empty('tpw_empty', 'try_pop_weak', 'vbq_tpw_empty'),
    lambda_success('tpd_success', 'try_pop', 'vbq_tpd_success'), lambda_empty('tpd_empty', 'try_pop', 'vbq_tpd_empty'),
    pop_src('do_try_pop_s', 0, 0), pop_src('do_try_pop_s_cut', 0, 1),
    pop_src('do_try_pop_w', 1, 0), pop_src('do_try_pop_w_cut', 1, 1),
    push_wrapper('try_push_strong', 'try_push_strong', 'false', 'DO_PUSH_S'),
    push_wrapper('try_push_weak', 'try_push_weak', 'true', 'DO_PUSH_W'),
    push_wrapper('try_push', 'try_push', 'default_to_weak', 'DO_PUSH_DEFAULT'),
    pop_wrapper('try_pop_strong', 'try_pop_strong', 'false', 'DO_POP_S'),
    pop_wrapper('try_pop_weak', 'try_pop_weak', 'true', 'DO_POP_W'),
    pop_wrapper('try_pop', 'try_pop', 'default_to_weak', 'DO_POP_DEFAULT'),
    dict(id='ctor', file=F, sig=r'vyukov_bounded_queue<T, Policies\.\.\.>::vyukov_bounded_queue\(std::size_t size\)', ctor=True,
         c_sig='static void vbq_ctor(struct vbq* self, size_t size)', members=MEM,
         subst=[(r'utils::', '', 'utils')],
         post_subst=[(r'XV_INIT_cells\(self, new cell\[size\]\)', 'XV_NEW_CELLS(self, size)', 'new_cells')],
         must_fire={'ctor_init': 2, 'subst:new_cells': 1, 'subst:utils': 1, 'A_STORE': 3, 'member:cells': 1}),
    dict(id='dtor', file=F, sig=r'vyukov_bounded_queue<T, Policies\.\.\.>::~vyukov_bounded_queue\(\)',
         c_sig='static void vbq_dtor(struct vbq* self)', members=MEM,
         pre_subst=[(r'reinterpret_cast<T&>\(c->data\)', 'XV_DATA_AS_T(c)', 'as_T')],
         subst=[(r'XV_DATA_AS_T\(c\)\.~T\(\)', 'XV_DESTROY_T(&(XV_DATA_AS_T(c)))', 'dtor_T')],
         must_fire={'subst:as_T': 1, 'subst:dtor_T': 1, 'A_LOAD': 3, 'member:cells': 1, 'member:index_mask': 1}),
  ],
  runs=RUNS, obligations=OBLS, loop_obligation=LOOP_OBL, replays=REPLAYS, canaries=CANARIES,
)

