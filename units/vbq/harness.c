#define XV_HAVOC_PUSH pos = 0; c = 0; self->enqueue_pos = 0
#define XV_HAVOC_POP pos = 0; c = 0; self->dequeue_pos = 0
