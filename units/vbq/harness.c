/* unit vbq - xenium::vyukov_bounded_queue (C05 vyukov half, C07 ownership).
 * Contracts, ghost state, invariants and harnesses only; every function body comes from lowered.h (extracted from /repo on each run).
 *
 * Model: T is an opaque 64-bit word.  storage_t (std::aligned_storage) carries the ghost lifetime flag of the T object living in it.
 * The ring has N cells (N is the shape, -DN=..), enqueue_pos / dequeue_pos are arbitrary 64-bit values (all wrap-arounds of the
 * ring and of the counters).  */
#include <stdint.h>
#include <stddef.h>
#ifndef N
#define N 4
#endif
static void mon_load(void* addr, uint64_t v, int o);
static void mon_store(void* addr, uint64_t v, int o);
static void mon_cas(void* addr, uint64_t e, uint64_t d, _Bool ok, int o);
#define XV_ON_LOAD(addr, val, order) mon_load((void*)(addr), (uint64_t)(val), (order))
#define XV_ON_STORE(addr, val, order) mon_store((void*)(addr), (uint64_t)(val), (order))
#define XV_ON_CAS(addr, e, d, ok, order) mon_cas((void*)(addr), (uint64_t)(e), (uint64_t)(d), (ok), (order))
#include "xv.h"
int xv_threw; uint64_t xv_clock, xv_rmw_old; _Bool xv_cas_ok;

typedef uint64_t value;                                  /* T */
typedef struct { value v; _Bool alive; unsigned ctor_n, dtor_n; } storage_t;   /* aligned_storage<T> + ghost: does a T live here; how often constructed / destroyed */
typedef struct cell { size_t sequence; storage_t data; } cell;
struct vbq { cell cells[N]; size_t index_mask; size_t enqueue_pos; size_t dequeue_pos; };

/* ------------------------------------------------------------------ event log (monitors) */
struct ev {
  unsigned seq_load_n, seq_load_weak_n; size_t last_seq_load_idx; uint64_t last_seq_load_val, last_seq_load_clock;
  unsigned seq_store_n, seq_store_weak_n; size_t seq_store_idx; uint64_t seq_store_val, seq_store_clock;
  unsigned enq_cas_ok_n, deq_cas_ok_n; uint64_t cas_exp, cas_des, cas_clock; size_t cas_validated_idx; uint64_t cas_validated_val, cas_validated_clock;
  unsigned pos_store_n;
  uint64_t last_enq_load, last_deq_load; _Bool full_at_deq_load, empty_at_enq_load;
  unsigned ctor_n, dtor_n, succ_n, asT_n; size_t ctor_idx, dtor_idx, succ_idx, asT_idx; value asT_val; uint64_t ctor_clock, dtor_clock, succ_clock;
  unsigned arg_moved;
} ev;
struct ev nondet_ev(void);
struct vbq* mon_self; value* g_arg;
static _Bool ev_clean(void) {
  return ev.seq_store_n == 0 && ev.enq_cas_ok_n == 0 && ev.deq_cas_ok_n == 0 && ev.pos_store_n == 0 && ev.ctor_n == 0 && ev.dtor_n == 0
      && ev.succ_n == 0 && ev.asT_n == 0 && ev.arg_moved == 0 && ev.seq_load_weak_n == 0 && ev.seq_store_weak_n == 0;
}
static size_t cell_index_of(void* addr) {       /* which cell's sequence word is addr (N if none) */
  if (!__CPROVER_same_object(addr, mon_self)) return N;
  size_t off = (size_t)__CPROVER_POINTER_OFFSET(addr);
  if (off >= N * sizeof(cell) || off % sizeof(cell) != offsetof(cell, sequence)) return N;
  return off / sizeof(cell);
}
static void mon_load(void* addr, uint64_t v, int o) {
  size_t i = cell_index_of(addr);
  if (i < N) { ev.seq_load_n++; if (!XV_IS_ACQUIRE(o)) ev.seq_load_weak_n++; ev.last_seq_load_idx = i; ev.last_seq_load_val = v; ev.last_seq_load_clock = xv_clock; }
  if (addr == (void*)&mon_self->enqueue_pos) { ev.last_enq_load = v; ev.empty_at_enq_load = (mon_self->enqueue_pos == mon_self->dequeue_pos); }
  if (addr == (void*)&mon_self->dequeue_pos) { ev.last_deq_load = v; ev.full_at_deq_load = (mon_self->enqueue_pos - mon_self->dequeue_pos == N); }
}
static void mon_store(void* addr, uint64_t v, int o) {
  size_t i = cell_index_of(addr);
  if (i < N) { ev.seq_store_n++; if (!XV_IS_RELEASE(o)) ev.seq_store_weak_n++; ev.seq_store_idx = i; ev.seq_store_val = v; ev.seq_store_clock = xv_clock; }
  else ev.pos_store_n++;
}
static void mon_cas(void* addr, uint64_t e, uint64_t d, _Bool ok, int o) {
  if (!ok) return;
  if (addr == (void*)&mon_self->enqueue_pos) ev.enq_cas_ok_n++; else if (addr == (void*)&mon_self->dequeue_pos) ev.deq_cas_ok_n++; else ev.pos_store_n++;
  ev.cas_exp = e; ev.cas_des = d; ev.cas_clock = xv_clock;
  ev.cas_validated_idx = ev.last_seq_load_idx; ev.cas_validated_val = ev.last_seq_load_val; ev.cas_validated_clock = ev.last_seq_load_clock;
}

/* ------------------------------------------------------------------ primitives: placement new, reinterpret_cast<T&>, ~T */
#ifdef XV_INT
#define LIFETIME(cond) ((void)0)      /* lifetime obligations are sequential (see unit.py assumptions) */
#else
#define LIFETIME(cond) XV_OBL("vbq.cell.lifetime", cond)
#endif
static size_t storage_index(storage_t* s) {
  if (!__CPROVER_same_object(s, mon_self)) return N;
  size_t off = (size_t)__CPROVER_POINTER_OFFSET(s);
  if (off >= N * sizeof(cell) || off % sizeof(cell) != offsetof(cell, data)) return N;
  return off / sizeof(cell);
}
static void xv_placement_new_move(storage_t* s, value* src) {      /* new (&v) T(std::move(source)) */
  LIFETIME(!s->alive);                                             /* constructing over a live object leaks/overwrites it */
  s->alive = 1; s->v = *src; s->ctor_n++;
  ev.ctor_n++; ev.ctor_idx = storage_index(s); ev.ctor_clock = ++xv_clock;
  if (src == g_arg) ev.arg_moved++;
}
static value* xv_as_T(storage_t* s) { LIFETIME(s->alive); ev.asT_n++; ev.asT_idx = storage_index(s); ev.asT_val = s->v; return &s->v; }     /* reinterpret_cast<T&>(c->data): must refer to a live T */
static void xv_destroy_T(value* p) {                               /* p->~T() */
  storage_t* s = (storage_t*)p;
  LIFETIME(s->alive);                                              /* double destruction */
  s->alive = 0; s->dtor_n++; s->v = nondet_u64();                  /* the storage of a destroyed object is indeterminate */
  ev.dtor_n++; ev.dtor_idx = storage_index(s); ev.dtor_clock = ++xv_clock;
}
#define XV_PLACEMENT_NEW_MOVE(dst, src) xv_placement_new_move((dst), (src))
#define XV_DATA_AS_T(c) (*xv_as_T(&(c)->data))
#define XV_DESTROY_T(p) xv_destroy_T(p)
#define XV_NEW_CELLS(self, size) do { XV_OBL("vbq.ctor.establishes", (size) == N); for (size_t k_ = 0; k_ < N; k_++) { (self)->cells[k_].sequence = nondet_size(); (self)->cells[k_].data.alive = 0; } } while (0)
#define XV_INIT_index_mask(self, v) ((self)->index_mask = (v))
/* contract of utils::is_power_of_two (proved in unit utilpow: true iff at most one bit set) */
static _Bool is_power_of_two(size_t v) { return (v & (v - 1)) == 0; }

/* ------------------------------------------------------------------ representation invariant Inv_V: builder and checker */
size_t in_n, in_op, in_deq, in_count, in_mid; value in_val;        /* replay inputs */
struct vbq g_q0;                                            /* pre-state snapshot */
static void build(struct vbq* q, size_t deq, size_t count, size_t mid) {     /* mid: bit i set = the operation on offset i is claimed but not finished (SOLO only) */
  q->index_mask = N - 1; q->dequeue_pos = deq; q->enqueue_pos = deq + count;
  for (size_t k = 0; k < N; k++) {                     /* physical cell k holds the position p of the window [deq, deq+N) with p & (N-1) == k */
    size_t i = (k - deq) & (N - 1), p = deq + i; cell* c = &q->cells[k];
    c->data.v = nondet_u64(); c->data.ctor_n = 0; c->data.dtor_n = 0;
    if (i < count) { c->sequence = p + 1; c->data.alive = 1; if ((mid >> i) & 1) { c->sequence = p; c->data.alive = nondet_bool(); } }       /* mid: push of p claimed, not yet published */
    else { c->sequence = p; c->data.alive = 0; if ((mid >> i) & 1) { c->sequence = p - N + 1; c->data.alive = nondet_bool(); } }                /* mid: pop of p-N claimed, cell not yet released */
  }
}
static _Bool inv_pos(struct vbq* q, size_t deq, size_t count) {
  return q->index_mask == N - 1 && q->dequeue_pos == deq && q->enqueue_pos == deq + count && count <= N;
}
static _Bool inv_cell(struct vbq* q, size_t deq, size_t count, size_t i) {       /* i: offset from deq, i < N */
  size_t p = deq + i; cell* c = &q->cells[p & (N - 1)];
  return i < count ? (c->sequence == p + 1 && c->data.alive) : (c->sequence == p && !c->data.alive);
}
static _Bool cell_same(cell* a, cell* b) {
  return a->sequence == b->sequence && a->data.v == b->data.v && a->data.alive == b->data.alive && a->data.ctor_n == b->data.ctor_n && a->data.dtor_n == b->data.dtor_n;
}
static _Bool pos_same(struct vbq* a, struct vbq* b) { return a->index_mask == b->index_mask && a->enqueue_pos == b->enqueue_pos && a->dequeue_pos == b->dequeue_pos; }

/* ------------------------------------------------------------------ INT environment */
#ifdef XV_INT
_Bool env_on; int env_mode;        /* 0: anything; 1: positions only advance (< 2^63 in total), 0 <= enq-deq <= N */
uint64_t env_tot_enq, env_tot_deq;
#define ENV_BUDGET ((uint64_t)1 << 63)
static void havoc_shared(struct vbq* q) {
  for (size_t i = 0; i < N; i++) q->cells[i].sequence = nondet_size();
  if (env_mode == 0) { q->enqueue_pos = nondet_size(); q->dequeue_pos = nondet_size(); }
  else {
    uint64_t a = nondet_u64(), b = nondet_u64();
    XV_ASSUME(a < ENV_BUDGET - env_tot_enq && b < ENV_BUDGET - env_tot_deq);
    env_tot_enq += a; env_tot_deq += b; q->enqueue_pos += a; q->dequeue_pos += b;
    XV_ASSUME(q->enqueue_pos - q->dequeue_pos <= N);
  }
}
void xv_env(void) { if (env_on) havoc_shared(mon_self); }
#endif

/* ------------------------------------------------------------------ loop cuts (retry loops of do_try_push / do_try_pop) */
static void havoc_loop_state(struct vbq* self) {
  ev = nondet_ev(); xv_clock = nondet_u64(); XV_ASSUME(xv_clock < ((uint64_t)1 << 32));   /* ghost event clock: only used to order the events of the last iteration */
#ifdef XV_INT
  env_tot_enq = nondet_u64(); env_tot_deq = nondet_u64();
  if (env_mode == 0) havoc_shared(self);
  else { for (size_t i = 0; i < N; i++) self->cells[i].sequence = nondet_size(); }    /* positions are havocked by the macro itself and constrained by the invariant */
#endif
}
static _Bool inv_loop(struct vbq* self, size_t pos, _Bool push) {
  if (!ev_clean()) return 0;
#ifdef XV_INT
  /* monotone rely: pos is a value the position counter held earlier in this call, so the counter is ahead of it by at most what the others added since */
  if (env_mode == 1) return env_tot_enq < ENV_BUDGET && env_tot_deq < ENV_BUDGET && self->enqueue_pos - self->dequeue_pos <= N
                         && (push ? self->enqueue_pos - pos <= env_tot_enq : self->dequeue_pos - pos <= env_tot_deq);
  return 1;
#else
  /* no interference: nothing has been written yet, pos is the current position */
  return pos_same(self, &g_q0) && pos == (push ? self->enqueue_pos : self->dequeue_pos);
#endif
}
#define XV_INV_PUSH inv_loop(self, pos, 1)
#define XV_HAVOC_PUSH pos = nondet_size(); c = 0; self->enqueue_pos = nondet_size(); IF_INT(self->dequeue_pos = nondet_size();) havoc_loop_state(self)
#define XV_INV_POP inv_loop(self, pos, 0)
#define XV_HAVOC_POP pos = nondet_size(); c = 0; self->dequeue_pos = nondet_size(); IF_INT(self->enqueue_pos = nondet_size();) havoc_loop_state(self)
#ifdef XV_INT
#define IF_INT(x) x
#else
#define IF_INT(x)
#endif

/* original loops: ghost iteration counter (see TICK in unit.py); the second entry into the loop body is the violation, the path ends there */
unsigned xv_iters;
#ifdef XV_SOLO
#define XV_LOOP_TICK() do { if (xv_iters >= 1) { XV_OBL("vbq.weak.terminates", 0); XV_ASSUME(0); } xv_iters++; } while (0)
#else
#define XV_LOOP_TICK() do { if (xv_iters >= 1) { XV_OBL("vbq.strong.seq_terminates", 0); XV_ASSUME(0); } xv_iters++; } while (0)
#endif

/* which lowering of the retry loop a run uses: the cut one (partial correctness, any number of retries) or the original one (with unwinding assertion) */
#if defined(XV_INT)
#define DO_PUSH_S vbq_do_try_push_s_cut
#define DO_PUSH_W vbq_do_try_push_w_cut
#define DO_POP_S vbq_do_try_pop_s_cut
#define DO_POP_W vbq_do_try_pop_w_cut
#elif defined(XV_SOLO)
#define DO_PUSH_S vbq_do_try_push_s
#define DO_PUSH_W vbq_do_try_push_w
#define DO_POP_S vbq_do_try_pop_s
#define DO_POP_W vbq_do_try_pop_w
#else
#define DO_PUSH_S vbq_do_try_push_s
#define DO_PUSH_W vbq_do_try_push_w_cut
#define DO_POP_S vbq_do_try_pop_s
#define DO_POP_W vbq_do_try_pop_w_cut
#endif
#define DO_PUSH_DEFAULT(self, a) ((XV_DEFAULT_TO_WEAK) ? DO_PUSH_W(self, a) : DO_PUSH_S(self, a))
#define DO_POP_DEFAULT(self, r) ((XV_DEFAULT_TO_WEAK) ? DO_POP_W(self, r) : DO_POP_S(self, r))

static void vbq_assign_value(struct vbq* self, storage_t* v_p, value* source_p);
static _Bool vbq_tps_success(value* result_p, value* v_p); static _Bool vbq_tps_empty(void);
static _Bool vbq_tpw_success(value* result_p, value* v_p); static _Bool vbq_tpw_empty(void);
static _Bool vbq_tpd_success(value* result_p, value* v_p); static _Bool vbq_tpd_empty(void);
#include "lowered.h"

/* the success lambdas are observed through their effect: result written from a live cell (xv_as_T counted) */

/* ------------------------------------------------------------------ harness helpers */
static void start(struct vbq* q, size_t op, _Bool mid) {
  in_n = N; in_op = op;
  in_deq = nondet_size(); in_count = nondet_size(); XV_ASSUME(in_count <= N);
  in_mid = mid ? nondet_size() : 0;
  build(q, in_deq, in_count, in_mid);
  g_q0 = *q; mon_self = q;
  struct ev z = {0}; ev = z; xv_clock = 0; xv_iters = 0;
}

/* ---- SEQ: push from any Inv_V state */
#define SEQ_PUSH(hname, fn, opcode, STRONG, tag, EXTRA_FAIL) \
void hname(void) { \
  struct vbq q; start(&q, opcode, 0); \
  value arg = nondet_u64(); in_val = arg; g_arg = &arg; \
  _Bool r = fn(&q, &arg); \
  _Bool full = (in_count == N); size_t enq0 = in_deq + in_count, t = enq0 & (N - 1); \
  size_t j = nondet_size(); XV_ASSUME(j < N);                 /* arbitrary cell */ \
  size_t i = nondet_size(); XV_ASSUME(i < N);                 /* arbitrary offset */ \
  if (STRONG) XV_OBL("vbq.push_strong.full_iff", r == !full); \
  else { XV_OBL("vbq.weak.no_wrong_success", !(r && full)); XV_OBL("vbq.weak.seq_no_spurious", r == !full); } \
  if (!r) { \
    if (STRONG) XV_OBL("vbq.push_strong.full_iff", pos_same(&q, &g_q0) && cell_same(&q.cells[j], &g_q0.cells[j])); \
    else XV_OBL("vbq.weak.no_wrong_success", pos_same(&q, &g_q0) && cell_same(&q.cells[j], &g_q0.cells[j])); \
    XV_OBL("vbq.push.rejected_stays_with_caller", ev.arg_moved == 0 && ev.ctor_n == 0 && ev.dtor_n == 0 && arg == in_val); \
    XV_OBL("vbq.inv.preserved", inv_pos(&q, in_deq, in_count) && inv_cell(&q, in_deq, in_count, i)); \
    XV_CANARY(tag ".full"); \
    EXTRA_FAIL \
  } else { \
    XV_OBL("vbq.fifo", q.enqueue_pos == enq0 + 1 && q.dequeue_pos == in_deq && q.index_mask == N - 1);      /* the value goes to position enq */ \
    XV_OBL("vbq.fifo", q.cells[t].data.v == in_val && q.cells[t].sequence == enq0 + 1); \
    if (j != t) XV_OBL("vbq.fifo", cell_same(&q.cells[j], &g_q0.cells[j]));                                   /* nothing else touched */ \
    XV_OBL("vbq.inv.preserved", inv_pos(&q, in_deq, in_count + 1) && inv_cell(&q, in_deq, in_count + 1, i)); \
    XV_OBL("vbq.push.accepted_owned", ev.arg_moved == 1 && ev.ctor_n == 1 && ev.ctor_idx == t && ev.dtor_n == 0 && q.cells[t].data.alive && q.cells[t].data.ctor_n == 1); \
    XV_OBL("vbq.sync.cell_sequence", ev.seq_store_n == 1 && ev.seq_store_weak_n == 0 && ev.seq_load_weak_n == 0 && ev.ctor_clock < ev.seq_store_clock); \
    if (!STRONG) XV_OBL("vbq.weak.no_wrong_success", !full); \
    XV_CANARY(tag ".ok"); \
    if (enq0 + 1 == 0) XV_CANARY(tag ".ok_wrap"); \
    if (in_count == N - 1) XV_CANARY(tag ".ok_becomes_full"); \
  } \
}
/* extra canary of the strong variants: full with enqueue_pos already wrapped around 2^64 and dequeue_pos not yet */
SEQ_PUSH(h_push_strong, vbq_try_push_strong, 0, 1, "push_s", if (enq0 < N - 1) XV_CANARY("push_s.full_wrapped");)
SEQ_PUSH(h_push_weak, vbq_try_push_weak, 1, 0, "push_w", )
SEQ_PUSH(h_push_default, vbq_try_push, 4, !(XV_DEFAULT_TO_WEAK), "push_d", if (enq0 < N - 1) XV_CANARY("push_d.full_wrapped");)

/* ---- SEQ: pop from any Inv_V state */
#define SEQ_POP(hname, fn, opcode, STRONG, tag, EXTRA_FAIL) \
void hname(void) { \
  struct vbq q; start(&q, opcode, 0); \
  value res = nondet_u64(); in_val = res; g_arg = 0; \
  _Bool r = fn(&q, &res); \
  _Bool empty = (in_count == 0); size_t t = in_deq & (N - 1); \
  size_t j = nondet_size(); XV_ASSUME(j < N); \
  size_t i = nondet_size(); XV_ASSUME(i < N); \
  if (STRONG) XV_OBL("vbq.pop_strong.empty_iff", r == !empty); \
  else { XV_OBL("vbq.weak.no_wrong_success", !(r && empty)); XV_OBL("vbq.weak.seq_no_spurious", r == !empty); } \
  if (!r) { \
    if (STRONG) XV_OBL("vbq.pop_strong.empty_iff", pos_same(&q, &g_q0) && cell_same(&q.cells[j], &g_q0.cells[j]) && res == in_val); \
    else XV_OBL("vbq.weak.no_wrong_success", pos_same(&q, &g_q0) && cell_same(&q.cells[j], &g_q0.cells[j]) && res == in_val); \
    XV_OBL("vbq.cell.lifetime", ev.ctor_n == 0 && ev.dtor_n == 0 && ev.asT_n == 0); \
    XV_OBL("vbq.inv.preserved", inv_pos(&q, in_deq, in_count) && inv_cell(&q, in_deq, in_count, i)); \
    XV_CANARY(tag ".empty"); \
    EXTRA_FAIL \
  } else { \
    XV_OBL("vbq.fifo", res == g_q0.cells[t].data.v);                                                        /* the value of the oldest position deq */ \
    XV_OBL("vbq.fifo", q.dequeue_pos == in_deq + 1 && q.enqueue_pos == in_deq + in_count && q.index_mask == N - 1); \
    XV_OBL("vbq.fifo", q.cells[t].sequence == in_deq + N); \
    if (j != t) XV_OBL("vbq.fifo", cell_same(&q.cells[j], &g_q0.cells[j])); \
    XV_OBL("vbq.inv.preserved", inv_pos(&q, in_deq + 1, in_count - 1) && inv_cell(&q, in_deq + 1, in_count - 1, i)); \
    XV_OBL("vbq.pop.destroys_once", ev.dtor_n == 1 && ev.dtor_idx == t && ev.ctor_n == 0 && !q.cells[t].data.alive && q.cells[t].data.dtor_n == 1 && ev.asT_n == 1); \
    XV_OBL("vbq.sync.cell_sequence", ev.seq_store_n == 1 && ev.seq_store_weak_n == 0 && ev.seq_load_weak_n == 0 && ev.dtor_clock < ev.seq_store_clock); \
    XV_CANARY(tag ".ok"); \
    if (in_deq + 1 == 0) XV_CANARY(tag ".ok_wrap"); \
    if (in_count == N) XV_CANARY(tag ".ok_from_full"); \
  } \
}
/* extra canary of the strong variants: empty with both positions at 2^64-1 */
SEQ_POP(h_pop_strong, vbq_try_pop_strong, 2, 1, "pop_s", if (in_deq + 1 == 0) XV_CANARY("pop_s.empty_at_max");)
SEQ_POP(h_pop_weak, vbq_try_pop_weak, 3, 0, "pop_w", )
SEQ_POP(h_pop_default, vbq_try_pop, 5, !(XV_DEFAULT_TO_WEAK), "pop_d", if (in_deq + 1 == 0) XV_CANARY("pop_d.empty_at_max");)

/* ---- the lambdas handed to do_try_pop by try_pop / try_pop_strong / try_pop_weak: success moves the cell's value into result and reports true, empty reports false */
void h_lambdas(void) {
  value r = nondet_u64(), v = nondet_u64(), v0 = v; unsigned k = nondet_uint(); XV_ASSUME(k < 3);
  _Bool s = k == 0 ? vbq_tps_success(&r, &v) : k == 1 ? vbq_tpw_success(&r, &v) : vbq_tpd_success(&r, &v);
  _Bool e = k == 0 ? vbq_tps_empty() : k == 1 ? vbq_tpw_empty() : vbq_tpd_empty();
  XV_OBL("vbq.pop.lambda_contract", s && r == v0 && !e);
  if (k == 2) XV_CANARY("lambdas.default");
}

/* ---- constructor / destructor */
void h_ctor(void) {
  struct vbq q; in_n = N; in_op = 6;
  q.index_mask = nondet_size(); q.enqueue_pos = nondet_size(); q.dequeue_pos = nondet_size();
  for (size_t k = 0; k < N; k++) { q.cells[k].sequence = nondet_size(); q.cells[k].data.v = nondet_u64(); q.cells[k].data.alive = nondet_bool(); q.cells[k].data.ctor_n = 0; q.cells[k].data.dtor_n = 0; }
  mon_self = &q; struct ev z = {0}; ev = z;
  vbq_ctor(&q, N);
  size_t i = nondet_size(); XV_ASSUME(i < N);
  XV_OBL("vbq.ctor.establishes", inv_pos(&q, 0, 0) && inv_cell(&q, 0, 0, i));
  XV_OBL("vbq.ctor.establishes", ev.ctor_n == 0 && ev.dtor_n == 0);
  XV_CANARY("ctor.done");
}
void h_dtor(void) {
  struct vbq q; start(&q, 7, 0);
  vbq_dtor(&q);
  size_t i = nondet_size(); XV_ASSUME(i < N);            /* offset from deq */
  cell* c = &q.cells[(in_deq + i) & (N - 1)];
  XV_OBL("vbq.dtor.owns", c->data.dtor_n == (i < in_count ? 1 : 0) && !c->data.alive && c->data.ctor_n == 0);
  XV_OBL("vbq.dtor.owns", ev.dtor_n == in_count && ev.ctor_n == 0);
  if (i < in_count) XV_CANARY("dtor.destroyed"); else XV_CANARY("dtor.skipped");
  if (in_count == N) XV_CANARY("dtor.full");
  if (in_count == 0) XV_CANARY("dtor.empty");
  if ((size_t)(in_deq + in_count) < in_deq) XV_CANARY("dtor.wrapped");
}

/* ---- INT: commit obligations under an arbitrary environment (env_mode 0) and full/empty instants under the monotone rely (env_mode 1) */
#ifdef XV_INT
#define INT_PUSH(hname, fn, opcode, STRONG, tag, FAILOBL) \
void hname(void) { \
  struct vbq q; start(&q, opcode, 0); env_mode = ENV_MODE; env_tot_enq = 0; env_tot_deq = 0; \
  value arg = nondet_u64(); in_val = arg; g_arg = &arg; \
  env_on = 1; _Bool r = fn(&q, &arg); env_on = 0; \
  XV_OBL("vbq.push.commit", ev.deq_cas_ok_n == 0 && ev.pos_store_n == 0 && ev.dtor_n == 0 && ev.asT_n == 0); \
  if (r) { \
    size_t t = ev.cas_exp & (N - 1); \
    XV_OBL("vbq.push.commit", ev.enq_cas_ok_n == 1 && ev.cas_des == ev.cas_exp + 1); \
    XV_OBL("vbq.push.commit", ev.cas_validated_idx == t && ev.cas_validated_val == ev.cas_exp && ev.cas_validated_clock < ev.cas_clock);   /* the claimed position is the one whose cell was just seen free */ \
    XV_OBL("vbq.push.commit", ev.ctor_n == 1 && ev.ctor_idx == t && ev.arg_moved == 1 && ev.cas_clock < ev.ctor_clock);                    /* value constructed in that cell, after the claim */ \
    XV_OBL("vbq.push.commit", ev.seq_store_n == 1 && ev.seq_store_idx == t && ev.seq_store_val == ev.cas_exp + 1 && ev.ctor_clock < ev.seq_store_clock);  /* then published */ \
    XV_OBL("vbq.sync.cell_sequence", ev.seq_store_weak_n == 0 && ev.seq_load_weak_n == 0); \
    XV_CANARY(tag ".int_ok"); \
  } else { \
    XV_OBL(FAILOBL, ev.enq_cas_ok_n == 0 && ev.seq_store_n == 0 && ev.ctor_n == 0 && ev.arg_moved == 0 && arg == in_val); \
    if (STRONG && ENV_MODE == 1) XV_OBL("vbq.push_strong.full_instant", ev.full_at_deq_load); \
    XV_CANARY(tag ".int_fail"); \
  } \
}
#define INT_POP(hname, fn, opcode, STRONG, tag, FAILOBL) \
void hname(void) { \
  struct vbq q; start(&q, opcode, 0); env_mode = ENV_MODE; env_tot_enq = 0; env_tot_deq = 0; \
  value res = nondet_u64(); in_val = res; g_arg = 0; \
  env_on = 1; _Bool r = fn(&q, &res); env_on = 0; \
  XV_OBL("vbq.pop.commit", ev.enq_cas_ok_n == 0 && ev.pos_store_n == 0 && ev.ctor_n == 0); \
  if (r) { \
    size_t t = ev.cas_exp & (N - 1); \
    XV_OBL("vbq.pop.commit", ev.deq_cas_ok_n == 1 && ev.cas_des == ev.cas_exp + 1); \
    XV_OBL("vbq.pop.commit", ev.cas_validated_idx == t && ev.cas_validated_val == ev.cas_exp + 1 && ev.cas_validated_clock < ev.cas_clock); \
    XV_OBL("vbq.pop.commit", ev.dtor_n == 1 && ev.dtor_idx == t && ev.asT_n == 1 && ev.asT_idx == t && ev.cas_clock < ev.dtor_clock && res == ev.asT_val); \
    XV_OBL("vbq.pop.commit", ev.seq_store_n == 1 && ev.seq_store_idx == t && ev.seq_store_val == ev.cas_exp + N && ev.dtor_clock < ev.seq_store_clock); \
    XV_OBL("vbq.sync.cell_sequence", ev.seq_store_weak_n == 0 && ev.seq_load_weak_n == 0); \
    XV_CANARY(tag ".int_ok"); \
  } else { \
    XV_OBL(FAILOBL, ev.deq_cas_ok_n == 0 && ev.seq_store_n == 0 && ev.dtor_n == 0 && ev.asT_n == 0 && res == in_val); \
    if (STRONG && ENV_MODE == 1) XV_OBL("vbq.pop_strong.empty_instant", ev.empty_at_enq_load); \
    XV_CANARY(tag ".int_fail"); \
  } \
}
#ifndef ENV_MODE
#define ENV_MODE 0
#endif
INT_PUSH(h_push_strong_int, vbq_try_push_strong, 0, 1, "push_s", "vbq.push.commit")
INT_PUSH(h_push_weak_int, vbq_try_push_weak, 1, 0, "push_w", "vbq.weak.no_wrong_success")
INT_POP(h_pop_strong_int, vbq_try_pop_strong, 2, 1, "pop_s", "vbq.pop.commit")
INT_POP(h_pop_weak_int, vbq_try_pop_weak, 3, 0, "pop_w", "vbq.weak.no_wrong_success")
#endif

void h_dispatch(void) {
  XV_OBL("vbq.pop_optional.dispatch", (XV_DISPATCH_POP) == 2 && (XV_DISPATCH_POP_STRONG) == 0 && (XV_DISPATCH_POP_WEAK) == 1);
  XV_CANARY("dispatch.reached");
}

/* ---- SOLO: the weak (lock-free) operations return within 2 iterations from every mid-operation state, without interference */
#ifdef XV_SOLO
/* Assumption (stated in unit.py): fewer than 2^62 operations in the life of a queue.  The weak operations compare
 * `seq < pos` unsigned (Vyukov's original compares the signed difference); once a position counter has wrapped past 2^64
 * a failing weak operation spins instead of returning.  2^64 operations are not reachable in practice, so this is recorded
 * as a remark (native_weak_wrap.cpp / fix_weak_wrap.diff kept for reference), not as a finding, and the SOLO start states
 * are restricted accordingly.  The SEQ/INT safety obligations above are still proved for ALL 64-bit positions. */
#define SOLO_MAX_POS ((size_t)1 << 62)
static _Bool solo_reachable(void) {
  if (!(in_deq < SOLO_MAX_POS)) return 0;
  for (size_t i = 0; i < N; i++)              /* a pending pop of position p-N exists only if that position exists (p >= N) */
    if (i >= in_count && ((in_mid >> i) & 1) && in_deq + i < N) return 0;
  return 1;
}
void h_solo_push_weak(void) {
  struct vbq q; start(&q, 1, 1); value arg = nondet_u64(); in_val = arg; g_arg = &arg;
  XV_ASSUME(solo_reachable());
  _Bool r = vbq_try_push_weak(&q, &arg);
  if (r) XV_CANARY("solo_push_w.ok"); else XV_CANARY("solo_push_w.fail");
}
void h_solo_pop_weak(void) {
  struct vbq q; start(&q, 3, 1); value res = nondet_u64(); in_val = res;
  XV_ASSUME(solo_reachable());
  _Bool r = vbq_try_pop_weak(&q, &res);
  if (r) XV_CANARY("solo_pop_w.ok"); else XV_CANARY("solo_pop_w.fail");
}
#endif
