// native replay for unit vbq: builds the Inv_V state (N cells, dequeue_pos = in_deq, in_count elements) cbmc found on the REAL
// xenium::vyukov_bounded_queue (positions and cell sequences are set directly: positions near 2^64 cannot be reached through the API),
// runs the real operation and compares with a FIFO reference model, the representation invariant and construction/destruction counts.
// exit 0: property holds, 1: violation reproduced, 2: cannot represent
// build: g++ -std=c++17 -fno-access-control -I /repo replay_vbq.cpp
#include <xenium/vyukov_bounded_queue.hpp>
#include <csignal>
#include <cstdio>
#include <cstdlib>
#include <cstring>
#include <deque>
#include <map>
#include <new>
#include <string>
#include <unistd.h>

static const uint32_t LIVE = 0x11fe11fe, MOVED = 0x30fed0ff, DEAD = 0xdeaddead;
static long n_ctor, n_dtor, n_bad;
struct Tracked {
  uint64_t val; volatile uint32_t magic;   // volatile: the store in the destructor must not be optimised away
  Tracked() : val(0), magic(LIVE) { ++n_ctor; }
  explicit Tracked(uint64_t v) : val(v), magic(LIVE) { ++n_ctor; }
  Tracked(Tracked&& o) noexcept : val(o.val) {
    if (magic == LIVE) { ++n_bad; printf("  construction over a live object (the old object is overwritten, never destroyed)\n"); }   // storage of free cells is pre-filled with DEAD
    if (o.magic != LIVE) { ++n_bad; printf("  move from a dead/moved-from object\n"); }
    magic = LIVE; o.magic = MOVED; ++n_ctor;
  }
  Tracked& operator=(Tracked&& o) noexcept {
    if (o.magic != LIVE) { ++n_bad; printf("  move-assignment from a dead/moved-from object\n"); }
    val = o.val; magic = LIVE; o.magic = MOVED; return *this;
  }
  ~Tracked() {
    if (magic != LIVE && magic != MOVED) { ++n_bad; printf("  destruction of storage that holds no object (double destruction)\n"); }
    magic = DEAD; ++n_dtor;
  }
};
using queue = xenium::vyukov_bounded_queue<Tracked>;

static const char* what = "";
static void on_alarm(int) {
  char buf[200]; int n = snprintf(buf, sizeof buf, "VIOLATION: %s did not return within 5 s (spins forever without any other thread)\n", what);
  (void)!write(1, buf, n); _exit(1);
}

static std::map<std::string, unsigned long long> args;
static int fails;
#define CHECK(c, ...) do { if (!(c)) { ++fails; printf("VIOLATION: " __VA_ARGS__); printf("\n"); } } while (0)

static bool check_inv(queue& q, size_t n, size_t deq, const std::deque<uint64_t>& model) {
  bool ok = true;
  size_t count = model.size();
  if (q.dequeue_pos.load() != deq || q.enqueue_pos.load() != deq + count) { ok = false; printf("  positions: deq=%zu enq=%zu, expected deq=%zu enq=%zu\n", q.dequeue_pos.load(), q.enqueue_pos.load(), deq, deq + count); }
  for (size_t i = 0; i < n; ++i) {
    size_t p = deq + i; auto& c = q.cells[p & (n - 1)]; auto* t = reinterpret_cast<Tracked*>(&c.data);
    size_t want = i < count ? p + 1 : p;
    if (c.sequence.load() != want) { ok = false; printf("  cell of position %zu: sequence %zu, expected %zu\n", p, c.sequence.load(), want); }
    if (i < count) { if (t->magic != LIVE || t->val != model[i]) { ok = false; printf("  position %zu should hold live value %llu\n", p, (unsigned long long)model[i]); } }
    else if (t->magic == LIVE) { ok = false; printf("  free cell of position %zu holds a live object\n", p); }
  }
  return ok;
}

int main(int argc, char** argv) {
  for (int i = 1; i < argc; ++i) { char* eq = strchr(argv[i], '='); if (!eq) continue; args[std::string(argv[i], eq - argv[i])] = strtoull(eq + 1, 0, 0); }
  size_t n = args.count("in_n") ? args["in_n"] : 4, op = args["in_op"], deq = args["in_deq"], count = args["in_count"], mid = args["in_mid"]; uint64_t val = args["in_val"];
  if (n < 64) mid &= (size_t(1) << n) - 1;
  if (n < 2 || (n & (n - 1)) || n > (1u << 20) || count > n || op > 7) { printf("inputs cannot be represented\n"); return 2; }
  setvbuf(stdout, 0, _IONBF, 0); signal(SIGALRM, on_alarm); alarm(5);
  printf("N=%zu op=%zu deq=%zu count=%zu val=%llu\n", n, op, deq, count, (unsigned long long)val);

  if (op == 6) {   // constructor
    queue q(n); std::deque<uint64_t> model;
    CHECK(q.index_mask == n - 1, "index_mask"); CHECK(check_inv(q, n, 0, model), "constructor does not establish the invariant"); CHECK(n_ctor == 0, "constructor constructed a T");
    return fails ? 1 : 0;
  }
  // ---- build the state
  queue* q = new queue(n);
  std::deque<uint64_t> model;
  q->dequeue_pos.store(deq); q->enqueue_pos.store(deq + count);
  for (size_t i = 0; i < n; ++i) {
    size_t p = deq + i; auto& c = q->cells[p & (n - 1)];
    bool pending = n < 64 ? (mid >> i) & 1 : false;    // SOLO states: another thread has claimed this position and not finished
    if (i < count && !pending) { uint64_t v = 1000 + i; new (&c.data) Tracked(v); c.sequence.store(p + 1); model.push_back(v); }
    else {
      reinterpret_cast<Tracked*>(&c.data)->magic = DEAD;
      c.sequence.store(i < count ? p /* push of p claimed, not published */ : pending ? p - n + 1 /* pop of p-n claimed, cell not released */ : p);
    }
  }
  if (mid) {
    // mid-operation state: only the lock-free (weak) operations are meaningful; the obligation is that they return
    if (op != 1 && op != 3) { printf("mid-operation states are only replayed for the weak operations\n"); return 2; }
    printf("mid-operation state, pending mask %#zx\n", mid);
    if (op == 1) { what = "try_push_weak"; bool r = q->try_push_weak(Tracked(val)); printf("%s -> %d\n", what, r); }
    else { what = "try_pop_weak"; Tracked res(val); bool r = q->try_pop_weak(res); printf("%s -> %d\n", what, r); }
    printf("returned: property holds on this input\n");
    _exit(0);     // the queue is deliberately not destroyed: pending cells are not a destructible state
  }
  if (!check_inv(*q, n, deq, model)) { printf("builder broken\n"); return 2; }
  n_ctor = n_dtor = n_bad = 0;
  bool full = count == n, empty = count == 0;

  if (op == 0 || op == 1 || op == 4) {
    what = op == 0 ? "try_push_strong" : op == 1 ? "try_push_weak" : "try_push";
    Tracked arg(val); n_ctor = 0;
    bool r = op == 0 ? q->try_push_strong(std::move(arg)) : op == 1 ? q->try_push_weak(std::move(arg)) : q->try_push(std::move(arg));
    printf("%s -> %d (queue %s)\n", what, r, full ? "full" : "not full");
    CHECK(r == !full, "%s returned %d on a queue holding %zu of %zu", what, r, count, n);
    if (r) { model.push_back(val); CHECK(n_ctor == 1 && n_dtor == 0 && arg.magic == MOVED, "accepted value: constructed %ld destroyed %ld", n_ctor, n_dtor); }
    else CHECK(n_ctor == 0 && n_dtor == 0 && arg.magic == LIVE && arg.val == val, "rejected value was touched");
    CHECK(check_inv(*q, n, deq, model), "invariant / FIFO contents broken after %s", what);
    n_ctor = n_dtor = 0;
  } else if (op == 2 || op == 3 || op == 5) {
    what = op == 2 ? "try_pop_strong" : op == 3 ? "try_pop_weak" : "try_pop";
    { Tracked res(val); n_ctor = 0;
      bool r = op == 2 ? q->try_pop_strong(res) : op == 3 ? q->try_pop_weak(res) : q->try_pop(res);
      printf("%s -> %d (queue %s)\n", what, r, empty ? "empty" : "not empty");
      CHECK(r == !empty, "%s returned %d on a queue holding %zu", what, r, count);
      if (r) { CHECK(res.val == model.front(), "popped %llu, oldest is %llu", (unsigned long long)res.val, (unsigned long long)model.front()); model.pop_front(); ++deq;
               CHECK(n_dtor == 1 && n_ctor == 0, "pop destroyed %ld constructed %ld objects", n_dtor, n_ctor); }
      else CHECK(res.val == val && n_dtor == 0 && n_ctor == 0, "failed pop touched something");
      CHECK(check_inv(*q, n, deq, model), "invariant / FIFO contents broken after %s", what);
      n_ctor = n_dtor = 0; }
    n_ctor = n_dtor = 0;
  }
  if (fails) { printf("violation reproduced\n"); return 1; }     // the follow-up would only add noise (or hang on a corrupted ring)
  if (op != 7) {
    // the queue must stay usable for strong operations: refill to capacity, then drain in FIFO order
    what = "follow-up try_push_strong / try_pop_strong";
    uint64_t next = 5000;
    while (model.size() < n) { CHECK(q->try_push_strong(Tracked(next)), "follow-up push failed on a non-full queue"); model.push_back(next++); if (fails) break; }
    CHECK(!q->try_push_strong(Tracked(1)), "push succeeded on a full queue");
    while (!model.empty() && !fails) { Tracked r; CHECK(q->try_pop_strong(r), "follow-up pop failed"); CHECK(r.val == model.front(), "FIFO order broken in follow-up drain"); model.pop_front(); ++deq; }
    { Tracked r; CHECK(!q->try_pop_strong(r), "pop succeeded on an empty queue"); }
    // leave two elements inside for the destructor
    for (int k = 0; k < 2 && model.size() < n; ++k) { q->try_push_strong(Tracked(next)); model.push_back(next++); }
    n_ctor = n_dtor = 0;
  }
  what = "~vyukov_bounded_queue";
  long inside = (long)model.size();
  delete q;
  CHECK(n_dtor == inside && n_ctor == 0, "destructor destroyed %ld objects, %ld were inside", n_dtor, inside);
  CHECK(n_bad == 0, "%ld lifetime errors", n_bad);
  printf(fails ? "violation reproduced\n" : "property holds on this input\n");
  return fails ? 1 : 0;
}
