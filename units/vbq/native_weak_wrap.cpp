// Demonstration on the real header: vyukov_bounded_queue::try_push_weak / try_pop_weak (documented "lock-free") never return once
// a position counter has wrapped around (or, for pop, reached) the maximum of std::size_t, although no other thread is running.
//   do_try_push<true>: "if (seq < pos) return false;" compares UNSIGNED.  On a full queue the cell of position pos still carries
//     seq = pos - N + 1 (previous lap).  For pos in [0, N-2] after the counter wrapped this is 2^64 - (N-1) + pos > pos, the test is
//     false and the loop re-reads the unchanged enqueue_pos forever.
//   do_try_pop<true>:  "if (seq < new_pos) return emptyFunc();" with pos = 2^64-1 gives new_pos = 0: never true; on an empty queue
//     (seq == pos) the loop spins forever.
// Vyukov's original compares the signed difference (intptr_t)seq - (intptr_t)pos < 0, which is what fix_weak_wrap.diff restores.
// The counters are set directly (-fno-access-control); with a 32-bit std::size_t the state is reached after 2^32 pushes.
// build: g++ -std=c++17 -fno-access-control -I /repo native_weak_wrap.cpp && ./a.out      exit 1 = defect shown, 0 = not present
#include <xenium/vyukov_bounded_queue.hpp>
#include <csignal>
#include <cstdio>
#include <unistd.h>
static const char* what;
static void on_alarm(int) { char b[160]; int n = snprintf(b, sizeof b, "DEFECT: %s did not return within 3 s with no other thread running\n", what); (void)!write(1, b, n); _exit(1); }
using queue = xenium::vyukov_bounded_queue<int>;
static void set_state(queue& q, std::size_t n, std::size_t deq, std::size_t count) {   // Inv_V: what `count` pushes after `deq` push/pop pairs leave behind
  q.dequeue_pos.store(deq); q.enqueue_pos.store(deq + count);
  for (std::size_t i = 0; i < n; ++i) { std::size_t p = deq + i; q.cells[p & (n - 1)].sequence.store(i < count ? p + 1 : p); }
}
int main(int argc, char** argv) {
  setvbuf(stdout, 0, _IONBF, 0); signal(SIGALRM, on_alarm);
  const std::size_t N = 4, MAX = ~std::size_t(0);
  bool only_pop = argc > 1 && argv[1][0] == 'p';
  {  // control: same shape far away from the wrap
    queue q(N); set_state(q, N, 100, N);
    what = "try_push_weak (full, positions 100..104)"; alarm(3); bool r = q.try_push_weak(1); alarm(0); printf("%s -> %d\n", what, r);
    set_state(q, N, 100, 0); int v;
    what = "try_pop_weak (empty, position 100)"; alarm(3); r = q.try_pop_weak(v); alarm(0); printf("%s -> %d\n", what, r);
  }
  if (!only_pop) {  // full queue whose enqueue_pos has wrapped: deq = 2^64-3, enq = 1
    queue q(N); set_state(q, N, MAX - 2, N);
    what = "try_push_weak (full, dequeue_pos = 2^64-3, enqueue_pos = 1)"; alarm(3); bool r = q.try_push_weak(1); alarm(0); printf("%s -> %d\n", what, r);
  }
  {  // empty queue at position 2^64-1
    queue q(N); set_state(q, N, MAX, 0); int v;
    what = "try_pop_weak (empty, dequeue_pos = enqueue_pos = 2^64-1)"; alarm(3); bool r = q.try_pop_weak(v); alarm(0); printf("%s -> %d\n", what, r);
  }
  printf("weak operations returned in all cases\n");
  return 0;
}
