#define XV_INV_OLADD 1
#define XV_HAVOC_OLADD h = 0; nodes.last->next = 0; head = 0
