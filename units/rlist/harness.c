/* unit rlist - deletable_object, delete_objects, retire_list, counting_retire_list, orphan_list, orphan (C02).
 * Contracts, ghost state and harnesses only; all function bodies come from lowered.h (extracted from /repo on every run). */
#include <stdint.h>
#include <stddef.h>
struct node;
static void mon_cas(void* addr, struct node* e, struct node* d, _Bool ok, int o);
static void mon_rmw(void* addr, struct node* oldv, struct node* newv, int o);
static void mon_store(void* addr);
#define XV_ON_CAS(addr, e, d, ok, order) mon_cas((void*)(addr), (struct node*)(e), (struct node*)(d), (ok), (order))
#define XV_ON_RMW(addr, oldv, newv, order) mon_rmw((void*)(addr), (struct node*)(oldv), (struct node*)(newv), (order))
#define XV_ON_STORE(addr, val, order) mon_store((void*)(addr))
#include "xv.h"
int xv_threw; uint64_t xv_clock, xv_rmw_old; _Bool xv_cas_ok;

#ifndef XV_L
#define XV_L 3
#endif
#ifdef XV_REAL_DELETE_OBJECTS
#define NN (3 * XV_L + 1)          /* orphan: three disjoint lists and one node outside */
#else
#define NN (2 * XV_L + 1)          /* pool: two disjoint lists of up to XV_L nodes and one node outside */
#endif

/* ---- the deleter: opaque value with ghost identity and life-cycle state ---- */
enum { D_RAW = 0, D_LIVE = 1, D_MOVED = 2, D_DEAD = 3 };
#define EMPTY_ID (-1)              /* all instances of an empty deleter type are the same deleter */
typedef struct { int id; unsigned char st; } Deleter;
struct node { struct node* next; Deleter _deleter_buffer;
              /* ghost */ unsigned deleted; int deleted_by; };
typedef struct node Derived;
struct retired_nodes { struct node* first; struct node* last; };
struct retire_list { struct retired_nodes _nodes; };
struct counting_retire_list { struct retire_list list; size_t counter; };
struct orphan_list { struct node* head; };
#define EPOCHS 3
struct orphan { unsigned target_epoch; struct node* retire_lists[EPOCHS]; };
static const struct retired_nodes xv_no_nodes = {0, 0};
#define XV_ARRAY_SIZE(a) (sizeof(a) / sizeof((a)[0]))
#define XV_AS_DELETER(buf) (buf)

struct node pool[NN];
static struct node* nondet_node(void) { unsigned k = nondet_uint(); return k < NN ? &pool[k] : (struct node*)0; }

unsigned ev_invoke, ev_destroy, ev_place; int ev_invoked_id; struct node* ev_invoked_on; unsigned char ev_buf_at_invoke;
static Deleter XV_MOVE_CONSTRUCT(Deleter* src) {
  XV_OBL("rlist.delete_self.own_deleter_once", src->st == D_LIVE);
  Deleter d; d.id = src->id; d.st = D_LIVE; src->st = D_MOVED; return d;
}
static void XV_DESTROY(Deleter* d) {
  XV_OBL("rlist.delete_self.own_deleter_once", d->st == D_LIVE || d->st == D_MOVED);
  d->st = D_DEAD; ev_destroy++;
}
static Deleter XV_DEFAULT_CONSTRUCT(void) { Deleter d; d.id = EMPTY_ID; d.st = D_LIVE; return d; }
static void XV_PLACEMENT_MOVE(Deleter* dst, Deleter* src) {
  XV_OBL("rlist.set_deleter.stores", src->st == D_LIVE);
  dst->id = src->id; dst->st = D_LIVE; src->st = D_MOVED; ev_place++;
}
/* the call operator of the deleter: destroys and frees the object -> the node's memory is gone (poisoned) */
static void XV_INVOKE(Deleter* d, struct node* obj) {
  XV_OBL("rlist.delete_self.own_deleter_once", d->st == D_LIVE);
  ev_invoke++; ev_invoked_id = d->id; ev_invoked_on = obj; ev_buf_at_invoke = obj->_deleter_buffer.st;
  obj->deleted++; obj->deleted_by = d->id;
  obj->next = nondet_node(); obj->_deleter_buffer.st = nondet_uchar(); obj->_deleter_buffer.id = nondet_int();
}

/* ---- contract stub of the virtual delete_self (proved for both variants by runs ne, ne_delete, e) ---- */
_Bool g_double_delete;
static void n_delete_self(struct node* n) {
  if (n->deleted != 0) g_double_delete = 1;
  n->deleted++; n->deleted_by = n->_deleter_buffer.id;
  n->next = nondet_node(); n->_deleter_buffer.st = nondet_uchar();         /* freed memory */
}
#define N_delete_self(n) n_delete_self(&(n))
#define RL_push(l, n) rl_push(&(l), (n))
#define RL_steal(l) rl_steal(&(l))
#define RL_empty(l) rl_empty(&(l))

/* ---- monitors (orphan_list) ---- */
struct orphan_list* mon_ol; struct node* mon_last;
unsigned mon_cas_n, mon_cas_ok_n, mon_xchg_n, mon_store_n; struct node *mon_cas_e, *mon_cas_d, *mon_cas_lastnext, *mon_xchg_old, *mon_xchg_new; int mon_cas_order, mon_xchg_order;
static void mon_cas(void* addr, struct node* e, struct node* d, _Bool ok, int o) {
  if (mon_ol && addr == (void*)&mon_ol->head) { mon_cas_n++; if (ok) { mon_cas_ok_n++; mon_cas_e = e; mon_cas_d = d; mon_cas_order = o; mon_cas_lastnext = mon_last ? mon_last->next : (struct node*)0; } }
}
static void mon_rmw(void* addr, struct node* oldv, struct node* newv, int o) {
  if (mon_ol && addr == (void*)&mon_ol->head) { mon_xchg_n++; mon_xchg_old = oldv; mon_xchg_new = newv; mon_xchg_order = o; }
}
static void mon_store(void* addr) { if (mon_ol && addr == (void*)&mon_ol->head) mon_store_n++; }

/* ---- INT environment: other threads add to / adopt from the orphan list: head may become anything ---- */
#ifdef XV_INT
_Bool env_on; unsigned env_changes;
void xv_env(void) { if (env_on && nondet_bool()) { mon_ol->head = nondet_node(); env_changes++; } }
#endif

/* ---- loop cut of the CAS retry loop in orphan_list::add ---- */
struct node *g_first, *g_last, *g_head0; _Bool g_frame_ok_dummy;
static _Bool chainA_intact(void);
#ifdef XV_INT
#define XV_INV_OLADD (nodes.first == g_first && nodes.last == g_last && chainA_intact() && mon_cas_ok_n == 0 && mon_store_n == 0)
#else
#define XV_INV_OLADD (nodes.first == g_first && nodes.last == g_last && chainA_intact() && self->head == g_head0 && h == g_head0 && mon_cas_ok_n == 0 && mon_store_n == 0)
#endif
#define XV_HAVOC_OLADD h = nondet_node(); nodes.last->next = nondet_node(); self->head = nondet_node() /* head: only changed by the environment */; mon_cas_n = nondet_uint()

#define DELETE_OBJECTS(p) rl_delete_objects(&(p))
#include "lowered.h"

/* ---- specification helpers: chains over the pool ---- */
/* in_*: harness inputs.  List A = pool[in_a[0]] -> ... -> pool[in_a[in_na-1]], list B likewise; all indices distinct */
unsigned in_na, in_nb; unsigned char in_a[XV_L], in_b[XV_L]; unsigned char in_x;   /* in_x: a node outside both lists */
static _Bool idx_ok(void) {
  if (!(in_na <= XV_L && in_nb <= XV_L && in_x < NN)) return 0;
  for (unsigned i = 0; i < XV_L; i++) {
    if (i < in_na) { if (in_a[i] >= NN || in_a[i] == in_x) return 0; for (unsigned j = 0; j < i; j++) if (in_a[j] == in_a[i]) return 0; }
    if (i < in_nb) { if (in_b[i] >= NN || in_b[i] == in_x) return 0; for (unsigned j = 0; j < i; j++) if (in_b[j] == in_b[i]) return 0;
                     for (unsigned j = 0; j < XV_L; j++) if (j < in_na && in_a[j] == in_b[i]) return 0; }
  }
  return 1;
}
static void havoc_pool(void) {
  for (unsigned i = 0; i < NN; i++) { pool[i].next = nondet_node(); pool[i]._deleter_buffer.id = nondet_int(); pool[i]._deleter_buffer.st = nondet_uchar();
    pool[i].deleted = nondet_uint(); pool[i].deleted_by = nondet_int(); }
  ev_invoke = 0; ev_destroy = 0; ev_place = 0; g_double_delete = 0;
  mon_ol = 0; mon_last = 0; mon_cas_n = 0; mon_cas_ok_n = 0; mon_xchg_n = 0; mon_store_n = 0;
}
static struct node* link_chain(unsigned n, const unsigned char* idx, struct node* tail) {
  struct node* first = tail;
  for (unsigned i = XV_L; i-- > 0;) if (i < n) { pool[idx[i]].next = first; first = &pool[idx[i]]; pool[idx[i]].deleted = 0; }
  return first;
}
static struct node* nodeA(unsigned i) { return &pool[in_a[i]]; }
static struct node* nodeB(unsigned i) { return &pool[in_b[i]]; }
/* the chain starting at p is exactly A (then B if with_b) then null */
static _Bool is_chain(struct node* p, unsigned skip_a, _Bool with_a, _Bool with_b) {
  if (with_a) for (unsigned i = 0; i < XV_L; i++) if (i >= skip_a && i < in_na) { if (p != nodeA(i)) return 0; p = p->next; }
  if (with_b) for (unsigned i = 0; i < XV_L; i++) if (i < in_nb) { if (p != nodeB(i)) return 0; p = p->next; }
  return p == 0;
}
static _Bool chainA_intact(void) {   /* A's internal links (not the last node's next) */
  for (unsigned i = 0; i + 1 < XV_L; i++) if (i + 1 < in_na && nodeA(i)->next != nodeA(i + 1)) return 0;
  return 1;
}
struct snap { struct node* next; Deleter buf; unsigned deleted; int deleted_by; } snap[NN];
static void take_snap(void) { for (unsigned i = 0; i < NN; i++) { snap[i].next = pool[i].next; snap[i].buf = pool[i]._deleter_buffer; snap[i].deleted = pool[i].deleted; snap[i].deleted_by = pool[i].deleted_by; } }
static _Bool same_as_snap(unsigned i, _Bool also_next) {
  return (!also_next || pool[i].next == snap[i].next) && pool[i]._deleter_buffer.id == snap[i].buf.id && pool[i]._deleter_buffer.st == snap[i].buf.st
         && pool[i].deleted == snap[i].deleted && pool[i].deleted_by == snap[i].deleted_by;
}
static _Bool in_A(unsigned k) { for (unsigned i = 0; i < XV_L; i++) if (i < in_na && in_a[i] == k) return 1; return 0; }
static _Bool in_B(unsigned k) { for (unsigned i = 0; i < XV_L; i++) if (i < in_nb && in_b[i] == k) return 1; return 0; }
static void havoc_inputs(void) {
  /* WLOG (the functions never compare or order node addresses, and every pool node is havocked alike): list A is
   * pool[0..na-1] in this order, list B is pool[L..L+nb-1], the outside node is pool[2L] */
  in_na = nondet_uint(); in_nb = nondet_uint(); in_x = 2 * XV_L;
  for (unsigned i = 0; i < XV_L; i++) { in_a[i] = i; in_b[i] = XV_L + i; }
  XV_ASSUME(idx_ok());
}

/* =============================== deletable_object_impl =============================== */
void h_ne(void) {
  havoc_pool(); unsigned k = nondet_uint(); XV_ASSUME(k < NN); struct node* n = &pool[k];
  XV_ASSUME(n->_deleter_buffer.st == D_RAW || n->_deleter_buffer.st == D_DEAD);       /* requires: no live deleter stored yet */
  Deleter d; d.id = nondet_int(); d.st = D_LIVE; XV_ASSUME(d.id != EMPTY_ID);
  take_snap();
  ne_set_deleter(n, d);
  XV_OBL("rlist.set_deleter.stores", n->_deleter_buffer.id == d.id && n->_deleter_buffer.st == D_LIVE && ev_place == 1);
  XV_OBL("rlist.set_deleter.stores", n->next == snap[k].next && n->deleted == snap[k].deleted && ev_invoke == 0 && ev_destroy == 0);
  unsigned o = nondet_uint(); XV_ASSUME(o < NN && o != k);
  XV_OBL("rlist.set_deleter.stores", same_as_snap(o, 1));
  ne_delete_self(n);
  XV_OBL("rlist.delete_self.own_deleter_once", ev_invoke == 1 && ev_invoked_id == d.id && ev_invoked_on == n);
  XV_OBL("rlist.delete_self.own_deleter_once", ev_destroy == 1 && ev_buf_at_invoke == D_DEAD);
  XV_OBL("rlist.delete_self.own_deleter_once", n->deleted == snap[k].deleted + 1 && n->deleted_by == d.id && same_as_snap(o, 1));
  XV_CANARY("ne.done");
}
void h_ne_delete(void) {            /* delete_self from any node state with a live stored deleter */
  havoc_pool(); unsigned k = nondet_uint(); XV_ASSUME(k < NN); struct node* n = &pool[k];
  XV_ASSUME(n->_deleter_buffer.st == D_LIVE);
  int id = n->_deleter_buffer.id; take_snap();
  unsigned o = nondet_uint(); XV_ASSUME(o < NN && o != k);
  ne_delete_self(n);
  XV_OBL("rlist.delete_self.own_deleter_once", ev_invoke == 1 && ev_invoked_id == id && ev_invoked_on == n);
  XV_OBL("rlist.delete_self.own_deleter_once", ev_destroy == 1 && ev_buf_at_invoke == D_DEAD);
  XV_OBL("rlist.delete_self.own_deleter_once", n->deleted == snap[k].deleted + 1 && n->deleted_by == id && same_as_snap(o, 1));
  XV_CANARY("ne_delete.done");
}
void h_e(void) {
  havoc_pool(); unsigned k = nondet_uint(); XV_ASSUME(k < NN); struct node* n = &pool[k];
  Deleter d; d.id = EMPTY_ID; d.st = D_LIVE;
  take_snap(); unsigned o = nondet_uint(); XV_ASSUME(o < NN);
  e_set_deleter(n, d);
  XV_OBL("rlist.set_deleter.stores", same_as_snap(o, 1) && ev_place == 0 && ev_invoke == 0 && ev_destroy == 0);
  e_delete_self(n);
  XV_OBL("rlist.delete_self.own_deleter_once", ev_invoke == 1 && ev_invoked_id == EMPTY_ID && ev_invoked_on == n && ev_destroy == 0);
  XV_OBL("rlist.delete_self.own_deleter_once", n->deleted == snap[k].deleted + 1 && (o == k || same_as_snap(o, 1)));
  XV_CANARY("e.done");
}

/* =============================== delete_objects =============================== */
void h_delete_objects(void) {
  havoc_pool(); havoc_inputs();
  struct node* list = link_chain(in_na, in_a, 0);
  take_snap();
  rl_delete_objects(&list);
  unsigned j = nondet_uint(); XV_ASSUME(j < NN);      /* an arbitrary node of the pool */
  if (in_A(j)) XV_OBL("rlist.delete.own_deleter_once", pool[j].deleted == 1 && pool[j].deleted_by == snap[j].buf.id);
  else XV_OBL("rlist.delete.own_deleter_once", same_as_snap(j, 1));
  XV_OBL("rlist.delete.own_deleter_once", list == 0 && !g_double_delete);
  if (in_na == 0) XV_CANARY("delobj.empty");
  if (in_na == XV_L) XV_CANARY("delobj.full");
}

/* =============================== retire_list =============================== */
static _Bool rl_inv(const struct retire_list* l, unsigned n) {   /* representation invariant: chain A, last = its final node */
  return is_chain(l->_nodes.first, 0, 1, 0) && (n == 0 ? (l->_nodes.first == 0 && l->_nodes.last == 0) : l->_nodes.last == nodeA(n - 1));
}
void h_rl(void) {
  havoc_pool(); havoc_inputs();
  struct retire_list l; l._nodes.first = link_chain(in_na, in_a, 0); l._nodes.last = in_na ? nodeA(in_na - 1) : (struct node*)0;
  XV_ASSUME(rl_inv(&l, in_na));
  take_snap();
  unsigned j = nondet_uint(); XV_ASSUME(j < NN);
  unsigned op = nondet_uint();
  if (op == 0) {               /* push a node that is in no list */
    XV_ASSUME(in_na < XV_L);   /* shape: the result has at most XV_L nodes */
    struct node* x = &pool[in_x]; struct node* old_first = l._nodes.first;
    rl_push(&l, x);
    XV_OBL("rlist.conserve", l._nodes.first == x && x->next == old_first && is_chain(x->next, 0, 1, 0));
    XV_OBL("rlist.conserve", l._nodes.last == (in_na ? nodeA(in_na - 1) : x) && l._nodes.last->next == 0);
    XV_OBL("rlist.conserve", same_as_snap(j, j != in_x));
    if (in_na == 0) XV_CANARY("rl.push_empty"); else XV_CANARY("rl.push_nonempty");
  } else if (op == 1) {
    struct retired_nodes r = rl_steal(&l);
    XV_OBL("rlist.conserve", is_chain(r.first, 0, 1, 0) && r.last == (in_na ? nodeA(in_na - 1) : (struct node*)0) && (r.first == 0) == (in_na == 0));
    XV_OBL("rlist.conserve", l._nodes.first == 0 && l._nodes.last == 0);
    XV_OBL("rlist.conserve", same_as_snap(j, 1));
    if (in_na) XV_CANARY("rl.steal");
  } else if (op == 2) {
    _Bool e = rl_empty(&l);
    XV_OBL("rlist.conserve", e == (in_na == 0) && rl_inv(&l, in_na) && same_as_snap(j, 1));
    if (e) XV_CANARY("rl.empty_true"); else XV_CANARY("rl.empty_false");
  } else {
    struct retire_list f; f._nodes.first = nondet_node(); f._nodes.last = nondet_node();
    rl_ctor(&f);
    XV_OBL("rlist.conserve", f._nodes.first == 0 && f._nodes.last == 0 && same_as_snap(j, 1));
  }
}

/* =============================== counting_retire_list =============================== */
void h_crl(void) {
  havoc_pool(); havoc_inputs();
  struct counting_retire_list c; c.list._nodes.first = link_chain(in_na, in_a, 0); c.list._nodes.last = in_na ? nodeA(in_na - 1) : (struct node*)0;
  c.counter = nondet_size(); XV_ASSUME(c.counter == in_na);                       /* invariant: counter == length */
  take_snap(); unsigned j = nondet_uint(); XV_ASSUME(j < NN);
  XV_OBL("rlist.counting.counter_is_length", crl_size(&c) == in_na && crl_empty(&c) == (in_na == 0));
  if (nondet_bool()) {
    XV_ASSUME(in_na < XV_L);
    struct node* x = &pool[in_x]; struct node* old_first = c.list._nodes.first;
    crl_push(&c, x);
    XV_OBL("rlist.counting.counter_is_length", c.counter == in_na + 1 && crl_size(&c) == in_na + 1);
    XV_OBL("rlist.conserve", c.list._nodes.first == x && x->next == old_first && is_chain(x->next, 0, 1, 0) && c.list._nodes.last == (in_na ? nodeA(in_na - 1) : x));
    XV_OBL("rlist.conserve", same_as_snap(j, j != in_x));
    XV_CANARY("crl.push");
  } else {
    struct retired_nodes r = crl_steal(&c);
    XV_OBL("rlist.counting.counter_is_length", c.counter == 0 && crl_empty(&c));
    XV_OBL("rlist.conserve", is_chain(r.first, 0, 1, 0) && r.last == (in_na ? nodeA(in_na - 1) : (struct node*)0) && c.list._nodes.first == 0 && c.list._nodes.last == 0);
    XV_OBL("rlist.conserve", same_as_snap(j, 1));
    if (in_na) XV_CANARY("crl.steal");
  }
}

/* =============================== orphan_list =============================== */
void h_ol_add(void) {           /* SEQ: head -> B; add(A) => head -> A ++ B */
  havoc_pool(); havoc_inputs(); XV_ASSUME(in_na >= 1);
  struct orphan_list ol; ol.head = link_chain(in_nb, in_b, 0);
  struct retired_nodes nodes; nodes.first = link_chain(in_na, in_a, nondet_node()); nodes.last = nodeA(in_na - 1);
  g_first = nodes.first; g_last = nodes.last; g_head0 = ol.head; mon_ol = &ol; mon_last = nodes.last;
  take_snap(); unsigned j = nondet_uint(); XV_ASSUME(j < NN);
  ol_add(&ol, nodes);
  XV_OBL("rlist.conserve", ol.head == nodeA(0) && is_chain(ol.head, 0, 1, 1));
  XV_OBL("rlist.conserve", same_as_snap(j, j != in_a[in_na - 1]));
  XV_OBL("rlist.orphans.sync", mon_cas_ok_n == 1 && XV_IS_RELEASE(mon_cas_order));
  if (in_nb == 0) XV_CANARY("ol_add.empty"); else XV_CANARY("ol_add.nonempty");
}
void h_ol_adopt(void) {
  havoc_pool(); havoc_inputs();
  struct orphan_list ol; ol.head = link_chain(in_nb, in_b, 0); mon_ol = &ol;
  take_snap(); unsigned j = nondet_uint(); XV_ASSUME(j < NN);
  struct node* r = ol_adopt(&ol);
  XV_OBL("rlist.conserve", is_chain(r, 0, 0, 1) && ol.head == 0 && same_as_snap(j, 1));
  if (r) { XV_OBL("rlist.orphans.sync", mon_xchg_n == 1 && XV_IS_ACQUIRE(mon_xchg_order)); XV_CANARY("ol_adopt.some"); } else XV_CANARY("ol_adopt.null");
}
void h_ol_add_int(void) {
#ifdef XV_INT
  havoc_pool(); havoc_inputs(); XV_ASSUME(in_na >= 1);
  struct orphan_list ol; ol.head = nondet_node();
  struct retired_nodes nodes; nodes.first = link_chain(in_na, in_a, nondet_node()); nodes.last = nodeA(in_na - 1);
  g_first = nodes.first; g_last = nodes.last; mon_ol = &ol; mon_last = nodes.last;
  take_snap(); unsigned j = nondet_uint(); XV_ASSUME(j < NN);
  env_on = 1; env_changes = 0;
  ol_add(&ol, nodes);
  env_on = 0;
  /* at the one successful CAS: the chain A was complete, its tail pointed to the value the CAS compared head with, and head became A's first node */
  XV_OBL("rlist.orphans.add.commit", mon_cas_ok_n == 1 && mon_store_n == 0 && mon_xchg_n == 0);
  XV_OBL("rlist.orphans.add.commit", mon_cas_d == nodeA(0) && mon_cas_lastnext == mon_cas_e);
  XV_OBL("rlist.orphans.add.commit", chainA_intact() && nodeA(in_na - 1)->next == mon_cas_e);     /* own nodes not written after publication */
  XV_OBL("rlist.orphans.add.commit", same_as_snap(j, j != in_a[in_na - 1]));
  XV_OBL("rlist.orphans.sync", XV_IS_RELEASE(mon_cas_order));
  XV_CANARY("ol_add_int.done");
  if (mon_cas_n > 1) XV_CANARY("ol_add_int.retried");
#endif
}
void h_ol_adopt_int(void) {
#ifdef XV_INT
  havoc_pool(); havoc_inputs();
  struct orphan_list ol; ol.head = nondet_node(); mon_ol = &ol;
  take_snap(); unsigned j = nondet_uint(); XV_ASSUME(j < NN);
  env_on = 1; env_changes = 0;
  struct node* r = ol_adopt(&ol);
  env_on = 0;
  XV_OBL("rlist.orphans.adopt.atomic", mon_cas_n == 0 && mon_store_n == 0 && mon_xchg_n <= 1 && same_as_snap(j, 1));
  if (mon_xchg_n) { XV_OBL("rlist.orphans.adopt.atomic", r == mon_xchg_old && mon_xchg_new == 0); XV_OBL("rlist.orphans.sync", XV_IS_ACQUIRE(mon_xchg_order)); }
  else XV_OBL("rlist.orphans.adopt.atomic", r == 0);
  if (r) XV_CANARY("ol_adopt_int.some"); else XV_CANARY("ol_adopt_int.null");
  if (mon_xchg_n && r == 0) XV_CANARY("ol_adopt_int.raced");
#endif
}

/* =============================== orphan::~orphan =============================== */
void h_orphan_dtor(void) {
#ifdef XV_REAL_DELETE_OBJECTS
  /* three disjoint lists (WLOG list e = pool[e*L .. e*L+cnt[e]-1]) and the node pool[3L] outside */
  havoc_pool();
  struct orphan o; o.target_epoch = nondet_uint(); unsigned cnt[EPOCHS];
  for (unsigned e = 0; e < EPOCHS; e++) { cnt[e] = nondet_uint(); XV_ASSUME(cnt[e] <= XV_L);
    struct node* first = 0;
    for (unsigned i = XV_L; i-- > 0;) if (i < cnt[e]) { pool[e * XV_L + i].next = first; first = &pool[e * XV_L + i]; first->deleted = 0; }
    o.retire_lists[e] = first; }
  take_snap(); unsigned j = nondet_uint(); XV_ASSUME(j < NN);
  orphan_dtor(&o);
  if (j < EPOCHS * XV_L && j % XV_L < cnt[j / XV_L]) XV_OBL("rlist.orphan.dtor.deletes_all", pool[j].deleted == 1 && pool[j].deleted_by == snap[j].buf.id);
  else XV_OBL("rlist.orphan.dtor.deletes_all", same_as_snap(j, 1));
  XV_OBL("rlist.orphan.dtor.deletes_all", !g_double_delete);
  if (cnt[0] == XV_L && cnt[2] >= 1) XV_CANARY("orphan_dtor.done");
#endif
}
