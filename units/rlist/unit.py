import re
DO = 'xenium/reclamation/detail/deletable_object.hpp'
RL = 'xenium/reclamation/detail/retire_list.hpp'
OR = 'xenium/reclamation/detail/orphan.hpp'

NODE = [(r'\bdeletable_object\b', 'struct node', 'node_type'), (r'\bNode\b', 'struct node', 'node_type')]

def range_for(text, lw):
    """unit-local rule: `for (auto X : ARR) { BODY }` over a std::array  ->  index loop that copies each element into X
    (the standard meaning of a range-for with a by-value loop variable)"""
    def rp(m):
        lw.fire('range_for')
        return 'for (size_t xv_i = 0; xv_i < XV_ARRAY_SIZE(%s); ++xv_i) { __auto_type %s = %s[xv_i]; ' % (m.group(2), m.group(1), m.group(2))
    return re.sub(r'for\s*\(\s*auto\s+(\w+)\s*:\s*(\w+)\s*\)\s*\{', rp, text)

# the deleter object is a value of an opaque class type: its move construction, destruction, placement-new and call operator
# are events of the ghost model (XV_* in harness.c); the rules below map the four C++ constructs to those events
DELETER = [
  (r'\bDeleter (\w+)\(\((\w+)\)\);', r'Deleter \1 = XV_MOVE_CONSTRUCT(&(\2));', 'move_construct'),
  (r'(\w+)\.~Deleter\(\);', r'XV_DESTROY(&(\1));', 'explicit_dtor'),
  (r'\bDeleter (\w+)\{\};', r'Deleter \1 = XV_DEFAULT_CONSTRUCT();', 'default_construct'),
  (r'(?<![\w.>])deleter\(\(', r'XV_INVOKE(&deleter, (', 'invoke'),
]

UNIT = dict(
  title='deletable_object / delete_objects / retire_list / counting_retire_list / orphan_list / orphan (C02)',
  properties=['C02'],
  drops='templates (Node = deletable_object = struct node; Derived = node); the deleter is an opaque value with a ghost identity and a '
        'life-cycle state (raw / live / moved-from / destroyed): move-construction, placement-new, explicit destructor call and the call '
        'operator are ghost events; the virtual call cur->delete_self() in delete_objects is the contract stub proved for both '
        'delete_self variants (it also poisons the freed node\'s next field); std::array<deletable_object*, Epochs> is a C array',
  assumptions=['virtual dispatch: delete_self() of a node is one of the two deletable_object_impl variants (both under contract)',
               'the local Deleter object in delete_self is destroyed at scope exit (implicit, not modelled)'],
  sources=[
    dict(id='delete_objects', file=DO, sig=r'inline void delete_objects\(deletable_object\*& list\)',
         c_sig='static void rl_delete_objects(struct node** list_p)',
         subst=NODE + [(r'\blist\b', '(*list_p)', 'list_ref')], methods={'delete_self': 'N_delete_self'},
         must_fire={'method:delete_self': 1, 'subst:list_ref': 2}),
    dict(id='delete_self_ne', file=DO, sig=r'void delete_self\(\) override', which=0,
         c_sig='static void ne_delete_self(struct node* self)',
         pre_subst=[(r'reinterpret_cast<Deleter&>\((\w+)\)', r'XV_AS_DELETER(\1)', 'buffer_as_deleter')],
         subst=DELETER, members=['_deleter_buffer'],
         must_fire={'subst:buffer_as_deleter': 1, 'subst:move_construct': 1, 'subst:explicit_dtor': 1, 'subst:invoke': 1, 'reference': 1}),
    dict(id='set_deleter_ne', file=DO, sig=r'void set_deleter\(Deleter deleter\)', which=0,
         c_sig='static void ne_set_deleter(struct node* self, Deleter deleter)',
         pre_subst=[(r'new \(&(\w+)\) Deleter\(std::move\((\w+)\)\);', r'XV_PLACEMENT_MOVE(&(\1), &(\2));', 'placement_new')],
         members=['_deleter_buffer'], must_fire={'subst:placement_new': 1}),
    dict(id='delete_self_e', file=DO, sig=r'void delete_self\(\) override', which=1,
         c_sig='static void e_delete_self(struct node* self)',
         pre_subst=[(r'static_assert\([^;]*\);', '', 'static_assert')], subst=DELETER,
         must_fire={'subst:static_assert': 1, 'subst:default_construct': 1, 'subst:invoke': 1}),
    dict(id='set_deleter_e', file=DO, sig=r'void set_deleter\(Deleter\s*\)', which=0,
         c_sig='static void e_set_deleter(struct node* self, Deleter deleter)', must_fire={}),
    dict(id='rl_ctor', file=RL, sig=r'(?<!~)retire_list\(\)', which=0, c_sig='static void rl_ctor(struct retire_list* self)',
         members=['_nodes'], must_fire={'member:_nodes': 2}),
    dict(id='rl_push', file=RL, sig=r'void push\(Node\* node\)', which=0, c_sig='static void rl_push(struct retire_list* self, struct node* node)',
         members=['_nodes'], must_fire={'member:_nodes': 4}),
    dict(id='rl_steal', file=RL, sig=r'retired_nodes<Node> steal\(\)', which=0, c_sig='static struct retired_nodes rl_steal(struct retire_list* self)',
         members=['_nodes'], dflt='xv_no_nodes', must_fire={'member:_nodes': 3}),
    dict(id='rl_empty', file=RL, sig=r'bool empty\(\) const', which=0, c_sig='static _Bool rl_empty(const struct retire_list* self)',
         members=['_nodes'], must_fire={'member:_nodes': 1}),
    dict(id='crl_push', file=RL, sig=r'void push\(Node\* node\)', which=1, c_sig='static void crl_push(struct counting_retire_list* self, struct node* node)',
         members=['list', 'counter'], methods={'push': 'RL_push'}, must_fire={'method:push': 1, 'member:counter': 1}),
    dict(id='crl_steal', file=RL, sig=r'retired_nodes<Node> steal\(\)', which=1, c_sig='static struct retired_nodes crl_steal(struct counting_retire_list* self)',
         members=['list', 'counter'], methods={'steal': 'RL_steal'}, dflt='xv_no_nodes', must_fire={'method:steal': 1, 'member:counter': 1}),
    dict(id='crl_empty', file=RL, sig=r'bool empty\(\) const', which=1, c_sig='static _Bool crl_empty(const struct counting_retire_list* self)',
         members=['list'], methods={'empty': 'RL_empty'}, must_fire={'method:empty': 1}),
    dict(id='crl_size', file=RL, sig=r'std::size_t size\(\) const', c_sig='static size_t crl_size(const struct counting_retire_list* self)',
         members=['counter'], must_fire={'member:counter': 1}),
    dict(id='ol_add', file=RL, sig=r'void add\(retired_nodes<Node> nodes\)', c_sig='static void ol_add(struct orphan_list* self, struct retired_nodes nodes)',
         members=['head'], cut_loops={0: 'OLADD'}, must_fire={'A_LOAD': 1, 'A_CASW': 1, 'cut_loop': 1}),
    dict(id='ol_adopt', file=RL, sig=r'XENIUM_FORCEINLINE Node\* adopt\(\)', c_sig='static struct node* ol_adopt(struct orphan_list* self)',
         members=['head'], must_fire={'A_LOAD': 1, 'A_XCHG': 1}),
    dict(id='orphan_dtor', file=OR, sig=r'~orphan\(\) override', c_sig='static void orphan_dtor(struct orphan* self)',
         py_pre=range_for, subst=[(r'detail::', '', 'ns')], calls={'delete_objects': 'DELETE_OBJECTS'}, members=['retire_lists'],
         must_fire={'range_for': 1, 'call:delete_objects': 1}),
  ],
  runs=[
    dict(id='ne', entry='h_ne', cls='unbounded'),
    dict(id='ne_delete', entry='h_ne_delete', cls='unbounded'),
    dict(id='e', entry='h_e', cls='unbounded'),
    dict(id='delete_objects', entry='h_delete_objects', tiers=['quick'], defs={'XV_L': 3}, unwindset=['rl_delete_objects.0:5'], cls='shape-complete', note='lists of 0..3 nodes in a pool of 5'),
    dict(id='delete_objects_5', entry='h_delete_objects', tiers=['thorough'], defs={'XV_L': 5}, unwindset=['rl_delete_objects.0:7'], cls='shape-complete', note='lists of 0..5 nodes'),
    dict(id='rl', entry='h_rl', tiers=['quick'], defs={'XV_L': 3}, cls='shape-complete', note='push/steal/empty/ctor are loop-free; the list shape (0..3 nodes) only bounds the specification walk'),
    dict(id='rl_5', entry='h_rl', tiers=['thorough'], defs={'XV_L': 5}, cls='shape-complete'),
    dict(id='crl', entry='h_crl', tiers=['quick'], defs={'XV_L': 3}, cls='shape-complete'),
    dict(id='crl_5', entry='h_crl', tiers=['thorough'], defs={'XV_L': 5}, cls='shape-complete'),
    dict(id='ol_add', entry='h_ol_add', tiers=['quick'], defs={'XV_L': 3}, cls='shape-complete', note='SEQ: the weak CAS does not fail, the retry loop is cut by invariant OLADD'),
    dict(id='ol_add_5', entry='h_ol_add', tiers=['thorough'], defs={'XV_L': 5}, cls='shape-complete'),
    dict(id='ol_adopt', entry='h_ol_adopt', tiers=['quick'], defs={'XV_L': 3}, cls='shape-complete'),
    dict(id='ol_adopt_5', entry='h_ol_adopt', tiers=['thorough'], defs={'XV_L': 5}, cls='shape-complete'),
    dict(id='ol_add_int', entry='h_ol_add_int', mode='INT', defs={'XV_L': 3}, cls='unbounded', note='any interference on head, spurious CAS failures; retry loop cut by invariant'),
    dict(id='ol_adopt_int', entry='h_ol_adopt_int', mode='INT', defs={'XV_L': 3}, cls='unbounded'),
    dict(id='orphan_dtor', entry='h_orphan_dtor', tiers=['quick'], defs={'XV_L': 2, 'XV_REAL_DELETE_OBJECTS': 1}, unwindset=['rl_delete_objects.0:4', 'orphan_dtor.0:4'], cls='shape-complete', note='3 epochs x lists of 0..2 nodes, real delete_objects'),
    dict(id='orphan_dtor_3', entry='h_orphan_dtor', tiers=['thorough'], defs={'XV_L': 3, 'XV_REAL_DELETE_OBJECTS': 1}, unwindset=['rl_delete_objects.0:5', 'orphan_dtor.0:4'], cls='shape-complete'),
  ],
  obligations={
    'rlist.delete_self.own_deleter_once': dict(deciding=True, text='delete_self invokes exactly one deleter, exactly once, on this node: the instance given to set_deleter (moved out of the node\'s buffer; a default-constructed one for empty deleter types); the stored instance is destroyed exactly once, before the node\'s memory is handed to the deleter'),
    'rlist.set_deleter.stores': dict(deciding=True, text='set_deleter move-constructs the passed deleter into the node\'s buffer (identity kept) and touches nothing else; no-op for empty deleter types'),
    'rlist.delete.own_deleter_once': dict(deciding=True, text='delete_objects(list): every node of the list is deleted exactly once by its own deleter, no freed node is read afterwards, nodes outside the list are untouched, list is null afterwards'),
    'rlist.conserve': dict(deciding=True, text='push/steal/add/adopt conserve the multiset of nodes: every node is afterwards in exactly the lists it has to be in, exactly once; chains stay null-terminated; first/last describe the chain'),
    'rlist.counting.counter_is_length': dict(deciding=True, text='counting_retire_list: counter == number of nodes in the list after push/steal; size() returns it'),
    'rlist.orphans.add.commit': dict(deciding=True, text='[INT] orphan_list::add publishes with a CAS whose expected value is what nodes.last->next was set to and whose desired value is nodes.first; it succeeds exactly once, never stores to head otherwise'),
    'rlist.orphans.adopt.atomic': dict(deciding=True, text='[INT] orphan_list::adopt returns exactly the value its single exchange replaced by null (or null without writing)'),
    'rlist.orphans.sync': dict(deciding=True, text='sync precondition: add publishes with release or stronger, adopt takes with acquire or stronger'),
    'rlist.orphan.dtor.deletes_all': dict(deciding=True, text='~orphan deletes every node of each of its Epochs retire lists exactly once, nothing else'),
  },
  loop_obligation={'OLADD': 'rlist.conserve'},
  replays={'rlist.conserve': dict(src='replay_rlist.cpp'), 'rlist.delete.own_deleter_once': dict(src='replay_rlist.cpp'),
           'rlist.counting.counter_is_length': dict(src='replay_rlist.cpp')},
  canaries=['ne.done', 'ne_delete.done', 'e.done', 'delobj.empty', 'delobj.full', 'rl.push_empty', 'rl.push_nonempty', 'rl.steal', 'rl.empty_true', 'rl.empty_false',
            'crl.push', 'crl.steal', 'ol_add.empty', 'ol_add.nonempty', 'ol_adopt.null', 'ol_adopt.some', 'ol_add_int.retried', 'ol_add_int.done',
            'ol_adopt_int.null', 'ol_adopt_int.some', 'ol_adopt_int.raced', 'orphan_dtor.done'],
)
