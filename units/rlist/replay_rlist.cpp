// native replay for rlist.* : builds lists of in_na / in_nb nodes on the REAL retire_list, counting_retire_list, orphan_list and
// deletable_object_impl (both variants) from /repo, runs push / steal / add / adopt / delete_objects and checks conservation,
// counter == length and "deleted exactly once by its own deleter".  exit 0 = holds, 1 = violation reproduced, 2 = cannot represent.
#include <atomic>
#include <cassert>
#include <cstddef>
#include <xenium/reclamation/detail/retire_list.hpp>
#include <xenium/reclamation/detail/orphan.hpp>
#include <cstdio>
#include <cstdlib>
#include <cstring>
#include <map>
#include <set>
#include <string>
#include <vector>
using namespace xenium::reclamation::detail;
static std::map<std::string, unsigned long long> args;
static int bad = 0;
#define CHECK(c, ...) do { if (!(c)) { printf("VIOLATION: " __VA_ARGS__); printf("\n"); bad++; } } while (0)

struct rec { int deleted = 0; int by = -1; };
static std::map<const void*, rec> recs;       // survives the node
struct tracking_deleter {                      // non-empty deleter with identity
  int id;
  template <class T> void operator()(T* p) const { recs[p].deleted++; recs[p].by = id; p->~T(); ::operator delete(p); }
};
struct empty_deleter { template <class T> void operator()(T* p) const { recs[p].deleted++; recs[p].by = -7; p->~T(); ::operator delete(p); } };
struct ne_node : deletable_object_impl<ne_node, tracking_deleter> { ~ne_node() override = default; };
struct e_node : deletable_object_impl<e_node, empty_deleter> { ~e_node() override = default; };

static deletable_object* mk(unsigned i) {
  if (i % 2 == 0) { auto* n = new (::operator new(sizeof(ne_node))) ne_node; n->set_deleter(tracking_deleter{int(100 + i)}); recs[n] = rec(); return n; }
  auto* n = new (::operator new(sizeof(e_node))) e_node; n->set_deleter(empty_deleter{}); recs[n] = rec(); return n;
}
static int expected_by(unsigned i) { return i % 2 == 0 ? int(100 + i) : -7; }
static std::vector<deletable_object*> walk(deletable_object* p, size_t max) {
  std::vector<deletable_object*> v; while (p && v.size() <= max) { v.push_back(p); p = p->next; } return v;
}

int main(int argc, char** argv) {
  for (int i = 1; i < argc; ++i) { char* eq = strchr(argv[i], '='); if (!eq) continue; args[std::string(argv[i], eq - argv[i])] = strtoull(eq + 1, 0, 0); }
  unsigned na = args.count("in_na") ? args["in_na"] : 3, nb = args.count("in_nb") ? args["in_nb"] : 2;
  if (na > 64 || nb > 64) { printf("shape too large\n"); return 2; }
  // --- retire_list / counting_retire_list: push na nodes, steal
  std::vector<deletable_object*> A, B;
  {
    retire_list<> rl; counting_retire_list<> crl{};
    CHECK(rl.empty(), "fresh retire_list not empty");
    for (unsigned i = 0; i < na; ++i) { A.push_back(mk(i)); rl.push(A.back()); CHECK(!rl.empty(), "empty after push"); }
    auto r = rl.steal();
    CHECK(rl.empty(), "steal did not clear the source list");
    auto w = walk(r.first, na);
    CHECK(w.size() == na, "stolen chain has %zu nodes, expected %u", w.size(), na);
    for (unsigned i = 0; i < w.size() && i < na; ++i) CHECK(w[i] == A[na - 1 - i], "stolen chain: wrong node at %u", i);
    CHECK(na == 0 ? (r.first == nullptr && r.last == nullptr) : (r.last == A[0] && r.last->next == nullptr), "last does not describe the chain end");
    // counting list: same nodes again
    for (unsigned i = 0; i < na; ++i) { crl.push(A[i]); CHECK(crl.size() == i + 1, "counter %zu after %u pushes", crl.size(), i + 1); }
    auto r2 = crl.steal();
    CHECK(crl.size() == 0 && crl.empty(), "counting list not reset by steal");
    CHECK(walk(r2.first, na).size() == na, "counting steal lost nodes");
    // --- orphan_list: add B, then add A  => head -> A ++ B ; adopt => all
    orphan_list<> ol{};
    CHECK(ol.adopt() == nullptr, "adopt from empty orphan list");
    retire_list<> rb; for (unsigned i = 0; i < nb; ++i) { B.push_back(mk(1000 + i)); rb.push(B.back()); }
    if (nb) ol.add(rb.steal());
    if (na) ol.add(r2);
    auto* h = ol.adopt();
    auto all = walk(h, na + nb);
    CHECK(all.size() == na + nb, "orphan list: %zu nodes adopted, expected %u", all.size(), na + nb);
    std::set<deletable_object*> s(all.begin(), all.end());
    CHECK(s.size() == all.size(), "orphan list: duplicate node");
    for (auto* n : A) CHECK(s.count(n) == 1, "orphan list lost a node of A");
    for (auto* n : B) CHECK(s.count(n) == 1, "orphan list lost a node of B");
    CHECK(ol.adopt() == nullptr, "orphan list not empty after adopt");
    // --- delete_objects: every node exactly once by its own deleter
    deletable_object* outside = mk(5000);
    delete_objects(h);
    CHECK(h == nullptr, "delete_objects did not null the list");
    for (unsigned i = 0; i < na; ++i) CHECK(recs[A[i]].deleted == 1 && recs[A[i]].by == expected_by(i), "node A%u deleted %d times by %d", i, recs[A[i]].deleted, recs[A[i]].by);
    for (unsigned i = 0; i < nb; ++i) CHECK(recs[B[i]].deleted == 1 && recs[B[i]].by == expected_by(1000 + i), "node B%u deleted %d times by %d", i, recs[B[i]].deleted, recs[B[i]].by);
    CHECK(recs[outside].deleted == 0, "node outside the list deleted");
    outside->delete_self();
  }
  printf("%s (na=%u nb=%u)\n", bad ? "violations found" : "all checks hold", na, nb);
  return bad ? 1 : 0;
}
